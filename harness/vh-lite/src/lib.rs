//! Harness core for the compiled program corpus. No dependency besides `ascent`: the crate graph of a
//! corpus crate must not contain foreign `PartialEq<_> for i32` impls (serde_json has some), because
//! the code Ascent generates for repeated variables (`x_.eq(&(x))`) only type-checks while `i32` has a
//! single `PartialEq` impl. Hence a tiny JSON value / parser / printer of our own.

use std::fmt::{self, Debug, Write as _};
use std::panic::{catch_unwind, AssertUnwindSafe};

#[derive(Clone, Debug, PartialEq)]
pub enum Value {
   Null,
   Bool(bool),
   Int(i64),
   Str(String),
   Arr(Vec<Value>),
   Obj(Vec<(String, Value)>),
}

static NULL: Value = Value::Null;

impl Value {
   pub fn get(&self, k: &str) -> &Value {
      match self {
         Value::Obj(kv) => kv.iter().find(|(n, _)| n == k).map(|(_, v)| v).unwrap_or(&NULL),
         _ => &NULL,
      }
   }
   pub fn at(&self, i: usize) -> &Value {
      match self {
         Value::Arr(a) => a.get(i).unwrap_or(&NULL),
         _ => &NULL,
      }
   }
   pub fn as_i64(&self) -> Option<i64> { if let Value::Int(n) = self { Some(*n) } else { None } }
   pub fn as_u64(&self) -> Option<u64> { self.as_i64().filter(|n| *n >= 0).map(|n| n as u64) }
   pub fn as_str(&self) -> Option<&str> { if let Value::Str(s) = self { Some(s) } else { None } }
   pub fn as_array(&self) -> Option<&Vec<Value>> { if let Value::Arr(a) = self { Some(a) } else { None } }
   pub fn is_str(&self, s: &str) -> bool { self.as_str() == Some(s) }
   pub fn obj(kv: Vec<(&str, Value)>) -> Value { Value::Obj(kv.into_iter().map(|(k, v)| (k.to_string(), v)).collect()) }
   pub fn str(s: &str) -> Value { Value::Str(s.to_string()) }
}

impl std::ops::Index<usize> for Value {
   type Output = Value;
   fn index(&self, i: usize) -> &Value { self.at(i) }
}
impl std::ops::Index<&str> for Value {
   type Output = Value;
   fn index(&self, k: &str) -> &Value { self.get(k) }
}

fn write_str(f: &mut fmt::Formatter<'_>, s: &str) -> fmt::Result {
   f.write_char('"')?;
   for c in s.chars() {
      match c {
         '"' => f.write_str("\\\"")?,
         '\\' => f.write_str("\\\\")?,
         '\n' => f.write_str("\\n")?,
         '\t' => f.write_str("\\t")?,
         '\r' => f.write_str("\\r")?,
         c if (c as u32) < 0x20 => write!(f, "\\u{:04x}", c as u32)?,
         c => f.write_char(c)?,
      }
   }
   f.write_char('"')
}

impl fmt::Display for Value {
   fn fmt(&self, f: &mut fmt::Formatter<'_>) -> fmt::Result {
      match self {
         Value::Null => f.write_str("null"),
         Value::Bool(b) => write!(f, "{}", b),
         Value::Int(n) => write!(f, "{}", n),
         Value::Str(s) => write_str(f, s),
         Value::Arr(a) => {
            f.write_char('[')?;
            for (i, v) in a.iter().enumerate() {
               if i > 0 {
                  f.write_char(',')?;
               }
               write!(f, "{}", v)?;
            }
            f.write_char(']')
         },
         Value::Obj(kv) => {
            f.write_char('{')?;
            for (i, (k, v)) in kv.iter().enumerate() {
               if i > 0 {
                  f.write_char(',')?;
               }
               write_str(f, k)?;
               f.write_char(':')?;
               write!(f, "{}", v)?;
            }
            f.write_char('}')
         },
      }
   }
}

/// JSON text -> Value (integers only; enough for the case files the driver writes)
pub fn parse_json(s: &str) -> Result<Value, String> {
   let b: Vec<char> = s.chars().collect();
   let mut i = 0;
   let v = pj(&b, &mut i)?;
   skip_ws(&b, &mut i);
   if i != b.len() {
      return Err(format!("trailing characters at {}", i));
   }
   Ok(v)
}

fn skip_ws(b: &[char], i: &mut usize) {
   while *i < b.len() && b[*i].is_whitespace() {
      *i += 1;
   }
}

fn pj(b: &[char], i: &mut usize) -> Result<Value, String> {
   skip_ws(b, i);
   if *i >= b.len() {
      return Err("unexpected end".into());
   }
   match b[*i] {
      '{' => {
         *i += 1;
         let mut kv = vec![];
         loop {
            skip_ws(b, i);
            if *i < b.len() && b[*i] == '}' {
               *i += 1;
               break;
            }
            if *i < b.len() && b[*i] == ',' {
               *i += 1;
               continue;
            }
            let k = match pj(b, i)? {
               Value::Str(s) => s,
               _ => return Err("object key must be a string".into()),
            };
            skip_ws(b, i);
            if *i >= b.len() || b[*i] != ':' {
               return Err("expected ':'".into());
            }
            *i += 1;
            let v = pj(b, i)?;
            kv.push((k, v));
         }
         Ok(Value::Obj(kv))
      },
      '[' => {
         *i += 1;
         let mut a = vec![];
         loop {
            skip_ws(b, i);
            if *i < b.len() && b[*i] == ']' {
               *i += 1;
               break;
            }
            if *i < b.len() && b[*i] == ',' {
               *i += 1;
               continue;
            }
            a.push(pj(b, i)?);
         }
         Ok(Value::Arr(a))
      },
      '"' => {
         *i += 1;
         let mut s = String::new();
         while *i < b.len() && b[*i] != '"' {
            if b[*i] == '\\' && *i + 1 < b.len() {
               *i += 1;
               match b[*i] {
                  'n' => s.push('\n'),
                  't' => s.push('\t'),
                  'r' => s.push('\r'),
                  'u' => {
                     let h: String = b[*i + 1..(*i + 5).min(b.len())].iter().collect();
                     s.push(char::from_u32(u32::from_str_radix(&h, 16).unwrap_or(63)).unwrap_or('?'));
                     *i += 4;
                  },
                  c => s.push(c),
               }
            } else {
               s.push(b[*i]);
            }
            *i += 1;
         }
         *i += 1;
         Ok(Value::Str(s))
      },
      't' if b[*i..].starts_with(&['t', 'r', 'u', 'e']) => {
         *i += 4;
         Ok(Value::Bool(true))
      },
      'f' if b[*i..].starts_with(&['f', 'a', 'l', 's', 'e']) => {
         *i += 5;
         Ok(Value::Bool(false))
      },
      'n' if b[*i..].starts_with(&['n', 'u', 'l', 'l']) => {
         *i += 4;
         Ok(Value::Null)
      },
      c if c == '-' || c.is_ascii_digit() => {
         let st = *i;
         *i += 1;
         while *i < b.len() && b[*i].is_ascii_digit() {
            *i += 1;
         }
         let t: String = b[st..*i].iter().collect();
         t.parse::<i64>().map(Value::Int).map_err(|e| format!("bad number {}: {}", t, e))
      },
      c => Err(format!("unexpected character {:?} at {}", c, *i)),
   }
}

// ---------------------------------------------------------------------------------------------
// Debug output -> Value

fn ctor(name: &str, args: Vec<Value>) -> Value { Value::obj(vec![("c", Value::str(name)), ("a", Value::Arr(args))]) }

/// Parses the `Debug` rendering of the value shapes used by the corpus programs: integers, booleans,
/// strings, tuples, arrays, `{..}` sets, `Name`, `Name(args)`. Tuples / arrays -> arrays, sets ->
/// `{"c":"#set","a":[..]}`, constructors -> `{"c":"Name","a":[..]}`.
pub fn dbg_to_json(s: &str) -> Value {
   let b: Vec<char> = s.chars().collect();
   let mut p = P { b: &b, i: 0 };
   let v = p.val();
   p.ws();
   if p.i != b.len() {
      return ctor("#unparsed", vec![Value::str(s)]);
   }
   v
}

struct P<'a> {
   b: &'a [char],
   i: usize,
}

impl<'a> P<'a> {
   fn ws(&mut self) {
      while self.i < self.b.len() && self.b[self.i].is_whitespace() {
         self.i += 1;
      }
   }
   fn peek(&mut self) -> Option<char> {
      self.ws();
      self.b.get(self.i).copied()
   }
   fn list(&mut self, close: char) -> Vec<Value> {
      let mut res = vec![];
      loop {
         match self.peek() {
            None => break,
            Some(c) if c == close => {
               self.i += 1;
               break;
            },
            Some(',') => self.i += 1,
            _ => {
               let before = self.i;
               res.push(self.val());
               if self.i == before {
                  self.i += 1;
               }
            },
         }
      }
      res
   }
   fn val(&mut self) -> Value {
      match self.peek() {
         None => Value::Null,
         Some('(') => {
            self.i += 1;
            Value::Arr(self.list(')'))
         },
         Some('[') => {
            self.i += 1;
            Value::Arr(self.list(']'))
         },
         Some('{') => {
            self.i += 1;
            let l = self.list('}');
            ctor("#set", l)
         },
         Some('"') => {
            self.i += 1;
            let mut s = String::new();
            while self.i < self.b.len() && self.b[self.i] != '"' {
               if self.b[self.i] == '\\' && self.i + 1 < self.b.len() {
                  self.i += 1;
               }
               s.push(self.b[self.i]);
               self.i += 1;
            }
            self.i += 1;
            Value::Str(s)
         },
         Some(c) if c == '-' || c.is_ascii_digit() => {
            let st = self.i;
            self.i += 1;
            while self.i < self.b.len() && self.b[self.i].is_ascii_digit() {
               self.i += 1;
            }
            let t: String = self.b[st..self.i].iter().collect();
            match t.parse::<i64>() {
               Ok(n) => Value::Int(n),
               Err(_) => ctor("#num", vec![Value::Str(t)]),
            }
         },
         Some(c) if c.is_alphabetic() || c == '_' => {
            let st = self.i;
            while self.i < self.b.len()
               && (self.b[self.i].is_alphanumeric() || self.b[self.i] == '_' || self.b[self.i] == ':')
            {
               self.i += 1;
            }
            let name: String = self.b[st..self.i].iter().collect();
            if name == "true" {
               return Value::Bool(true);
            }
            if name == "false" {
               return Value::Bool(false);
            }
            match self.peek() {
               Some('(') => {
                  self.i += 1;
                  let l = self.list(')');
                  ctor(&name, l)
               },
               _ => ctor(&name, vec![]),
            }
         },
         Some(_) => {
            self.i += 1;
            Value::Null
         },
      }
   }
}

pub fn row_json<T: Debug>(row: &T) -> Value { dbg_to_json(&format!("{:?}", row)) }

pub fn rows_json<'a, T: Debug + 'a>(rows: impl Iterator<Item = &'a T>) -> Value {
   Value::Arr(rows.map(|r| row_json(r)).collect())
}

/// Converts the raw hook events (JSON text with `Debug` strings) into values with parsed tuples.
pub fn hook_events(raw: Vec<String>) -> Vec<Value> {
   raw.into_iter()
      .map(|s| match parse_json(&s) {
         Ok(Value::Obj(mut kv)) => {
            let is_ins = kv.iter().any(|(k, v)| k == "e" && v.is_str("ins"));
            if is_ins {
               for (k, v) in kv.iter_mut() {
                  if k == "t" {
                     let t = v.as_str().unwrap_or("").to_string();
                     *v = if t.is_empty() { Value::Null } else { dbg_to_json(&t) };
                  }
               }
            }
            Value::Obj(kv)
         },
         _ => Value::obj(vec![("e", Value::str("garbled")), ("raw", Value::Str(s))]),
      })
      .collect()
}

/// Runs `f`, turning a panic into `Err(message)`.
pub fn guarded<R>(f: impl FnOnce() -> R) -> Result<R, String> {
   match catch_unwind(AssertUnwindSafe(f)) {
      Ok(r) => Ok(r),
      Err(e) => {
         let msg = if let Some(s) = e.downcast_ref::<&str>() {
            s.to_string()
         } else if let Some(s) = e.downcast_ref::<String>() {
            s.clone()
         } else {
            "<non-string panic>".to_string()
         };
         Err(msg)
      },
   }
}

pub fn quiet_panics() {
   if std::env::var_os("VH_LOUD").is_none() {
      std::panic::set_hook(Box::new(|_| {}));
   }
}

pub fn read_cases() -> Vec<Value> {
   use std::io::BufRead;
   let path = std::env::args().nth(1).expect("usage: <bin> <cases.ndjson> <out.ndjson>");
   let f = std::fs::File::open(&path).expect("cannot open cases file");
   std::io::BufReader::new(f)
      .lines()
      .map(|l| l.unwrap())
      .filter(|l| !l.trim().is_empty())
      .map(|l| parse_json(&l).expect("bad case line"))
      .collect()
}

pub struct Out {
   w: std::io::BufWriter<std::fs::File>,
}

impl Out {
   pub fn open() -> Out {
      let path = std::env::args().nth(2).expect("usage: <bin> <cases.ndjson> <out.ndjson>");
      Out { w: std::io::BufWriter::new(std::fs::File::create(path).expect("cannot create output file")) }
   }
   pub fn line(&mut self, v: &Value) {
      use std::io::Write;
      writeln!(self.w, "{}", v).unwrap();
   }
   pub fn flush(&mut self) {
      use std::io::Write;
      self.w.flush().unwrap();
   }
}

// ---------------------------------------------------------------------------------------------
// driving compiled Ascent programs

/// User-defined aggregators used by corpus programs (the specification knows them by name).
pub mod aggs {
   /// yields the minimum and the maximum (two results; one if they coincide, none on empty input)
   pub fn minmax<'a>(inp: impl Iterator<Item = (&'a i32,)>) -> impl Iterator<Item = i32> {
      let v: Vec<i32> = inp.map(|t| *t.0).collect();
      let mut res = vec![];
      if let Some(mn) = v.iter().min() {
         res.push(*mn);
         let mx = *v.iter().max().unwrap();
         if mx != *mn {
            res.push(mx);
         }
      }
      res.into_iter()
   }
   /// sum of products of two columns: exposes the multiplicity with which tuples reach an aggregator
   pub fn sumpairs<'a>(inp: impl Iterator<Item = (&'a i32, &'a i32)>) -> impl Iterator<Item = i32> {
      let mut any = false;
      let mut s = 0;
      for (a, b) in inp {
         any = true;
         s += a * b;
      }
      if any { Some(s) } else { None }.into_iter()
   }
}

static INIT_ROWS: std::sync::Mutex<Vec<(String, Vec<Value>)>> = std::sync::Mutex::new(Vec::new());

/// Rows the current case wants a relation to be initialised with (`relation r(..) = <expr>` variants).
pub fn init_rows(rel: &str) -> Vec<Value> {
   INIT_ROWS.lock().unwrap().iter().find(|(n, _)| n == rel).map(|(_, r)| r.clone()).unwrap_or_default()
}

/// What the generated glue of every corpus program implements.
pub trait Driven {
   fn push(&mut self, rel: &str, row: &Value);
   /// the caller replaces the contents of a relation field by the empty relation (`prog.r = Default::default()`)
   fn clear(&mut self, _rel: &str) { panic!("verif harness: clear is not available for this variant") }
   fn run(&mut self);
   /// `None`: the variant was not compiled with `generate_run_timeout`.
   fn run_timeout(&mut self, _nanos: u64) -> Option<bool> { None }
   fn dump(&self) -> Value;
   fn summary(&self) -> String { String::new() }
}

pub struct AssertSend<T>(pub T);
// The harness never shares a program value between threads at the same time; it only moves it.
unsafe impl<T> Send for AssertSend<T> {}

pub fn in_pool<R: Send>(threads: u64, f: impl FnOnce() -> R + Send) -> R {
   if threads == 0 {
      f()
   } else {
      ascent::rayon::ThreadPoolBuilder::new().num_threads(threads as usize).build().unwrap().install(f)
   }
}

fn ev(kv: Vec<(&str, Value)>) -> Value { Value::obj(kv) }

/// Executes the operations of one case on a fresh program value and writes the trace
/// (case / push / call / hook events / ret / state) to `out`.
pub fn drive(case: &Value, out: &mut Out, mk: fn() -> Box<dyn Driven>) {
   // `nohooks`: stress rounds run without the event sink (it would serialise the workers)
   for l in drive_lines(case, mk, case["nohooks"] != Value::Bool(true)) {
      out.line(&l);
   }
}

/// Runs the cases of one group simultaneously, each on its own OS thread (released by a barrier).
/// The hook event sink is process-wide, so grouped cases are run without hooks: only their calls,
/// return values and final states are recorded.
pub fn drive_group(cases: &[(Value, fn() -> Box<dyn Driven>)], out: &mut Out) {
   let barrier = std::sync::Arc::new(std::sync::Barrier::new(cases.len()));
   let handles: Vec<_> = cases
      .iter()
      .map(|(c, mk)| {
         let c = c.clone();
         let mk = *mk;
         let b = barrier.clone();
         std::thread::spawn(move || {
            b.wait();
            drive_lines(&c, mk, false)
         })
      })
      .collect();
   for (h, (c, _)) in handles.into_iter().zip(cases.iter()) {
      match h.join() {
         Ok(lines) => {
            for l in lines {
               out.line(&l);
            }
         },
         Err(_) => {
            out.line(&ev(vec![("e", Value::str("case")), ("id", c["id"].clone()), ("prog", c["prog"].clone()),
                              ("pi", c["pi"].clone()), ("var", c["var"].clone()), ("mode", c["mode"].clone())]));
            out.line(&ev(vec![("e", Value::str("ret")), ("v", Value::str("panic")), ("msg", Value::str("thread of a grouped case died"))]));
         },
      }
   }
}

pub fn drive_lines(case: &Value, mk: fn() -> Box<dyn Driven>, hooks: bool) -> Vec<Value> {
   use ascent::internal::verif;
   let mut out = vec![];
   out.push(ev(vec![
      ("e", Value::str("case")),
      ("id", case["id"].clone()),
      ("prog", case["prog"].clone()),
      ("pi", case["pi"].clone()),
      ("var", case["var"].clone()),
      ("mode", case["mode"].clone()),
   ]));
   {
      let mut init = INIT_ROWS.lock().unwrap();
      init.clear();
      if let Value::Obj(kv) = &case["init"] {
         for (k, v) in kv {
            init.push((k.clone(), v.as_array().cloned().unwrap_or_default()));
         }
      }
   }
   let cpool = case["cpool"].as_u64().unwrap_or(0);
   let made = guarded(|| in_pool(cpool, || AssertSend(mk())));
   let mut d = match made {
      Ok(d) => d,
      Err(m) => {
         out.push(ev(vec![("e", Value::str("ret")), ("v", Value::str("panic")), ("msg", Value::Str(format!("constructor: {}", m)))]));
         return out;
      },
   };
   if let Value::Obj(kv) = &case["init"] {
      for (k, v) in kv {
         out.push(ev(vec![("e", Value::str("push")), ("rel", Value::str(k)), ("rows", v.clone())]));
      }
   }
   if case["want_summary"] == Value::Bool(true) {
      out.push(ev(vec![("e", Value::str("summary")), ("text", Value::Str(d.0.summary()))]));
   }
   let perturb = case["seed"].as_u64().unwrap_or(0);
   for op in case["ops"].as_array().unwrap() {
      match op["op"].as_str().unwrap() {
         "push" => {
            let rel = op["rel"].as_str().unwrap();
            for row in op["rows"].as_array().unwrap() {
               d.0.push(rel, row);
            }
            out.push(ev(vec![("e", Value::str("push")), ("rel", Value::str(rel)), ("rows", op["rows"].clone())]));
         },
         "set" => {
            // the caller overwrites a relation field: clear + push
            let rel = op["rel"].as_str().unwrap();
            d.0.clear(rel);
            for row in op["rows"].as_array().unwrap() {
               d.0.push(rel, row);
            }
            out.push(ev(vec![("e", Value::str("set")), ("rel", Value::str(rel)), ("rows", op["rows"].clone())]));
         },
         kind @ ("run" | "run_timeout") => {
            let pool = op["pool"].as_u64().unwrap_or(0);
            let k = op["k"].as_u64().unwrap_or(0);
            out.push(ev(vec![
               ("e", Value::str("call")),
               ("kind", Value::str(kind)),
               ("k", Value::Int(k as i64)),
               ("pool", Value::Int(pool as i64)),
            ]));
            if hooks {
               verif::arm();
               verif::perturb_arm(perturb);
               if kind == "run_timeout" {
                  verif::clock_arm();
               }
            }
            let dref = AssertSend(&mut d);
            let r = guarded(move || {
               in_pool(pool, move || {
                  let dref = dref;
                  if kind == "run" {
                     dref.0 .0.run();
                     Some(true)
                  } else {
                     dref.0 .0.run_timeout(k)
                  }
               })
            });
            let checks = if hooks && kind == "run_timeout" { verif::clock_disarm() } else { 0 };
            if hooks {
               verif::perturb_arm(0);
               for e in hook_events(verif::disarm()) {
                  out.push(e);
               }
            }
            match r {
               Ok(Some(v)) => out.push(ev(vec![("e", Value::str("ret")), ("v", Value::Bool(v)), ("checks", Value::Int(checks as i64))])),
               Ok(None) => out.push(ev(vec![("e", Value::str("ret")), ("v", Value::str("unsupported"))])),
               Err(m) => {
                  out.push(ev(vec![("e", Value::str("ret")), ("v", Value::str("panic")), ("msg", Value::Str(m))]));
                  if let Ok(st) = guarded(|| d.0.dump()) {
                     out.push(ev(vec![("e", Value::str("state")), ("rels", st), ("after_panic", Value::Bool(true))]));
                  }
                  return out;
               },
            }
            match guarded(|| d.0.dump()) {
               Ok(st) => out.push(ev(vec![("e", Value::str("state")), ("rels", st)])),
               Err(m) => {
                  out.push(ev(vec![("e", Value::str("ret")), ("v", Value::str("panic")), ("msg", Value::Str(format!("dump: {}", m)))]));
                  return out;
               },
            }
         },
         other => panic!("unknown op {}", other),
      }
   }
   out
}

#[cfg(test)]
mod tests {
   use super::*;
   #[test]
   fn roundtrip() {
      let v = parse_json(r#"{"a":[1,-2,{"b":"x\"y"}],"c":true,"d":null}"#).unwrap();
      assert_eq!(format!("{}", v), r#"{"a":[1,-2,{"b":"x\"y"}],"c":true,"d":null}"#);
      assert_eq!(format!("{}", dbg_to_json("(1, Some(-3), {1, 2})")), r##"[1,{"c":"Some","a":[-3]},{"c":"#set","a":[1,2]}]"##);
   }
}
