#![allow(unused_imports, unused_variables, unused_mut, dead_code, non_snake_case, unused_parens, clippy::all)]
use ascent::lattice::bounded_set::BoundedSet;
use ascent::lattice::constant_propagation::ConstPropagation;
use ascent::lattice::set::Set;
use ascent::lattice::Product;
use ascent::{Dual, Lattice};
use vh_lite::{rows_json, Driven, Value};

use vh_lite::{read_cases, drive, drive_group, quiet_panics, Out};

mod tc_right__par;
mod tc_left__topar;
mod tc_left__srcred;
mod tc_left__perm2;
mod tc_nonlin__pari;
mod tc_nonlin__u64;
mod mutual__mrt;
mod mutual__init;
mod mutual__permpar;
mod scc_chain__topar;
mod diamond__ser;
mod repeated__pari;
mod three_dyn__ser;
mod three_dyn__permpar;
mod conds__par;
mod conds__srcto;
mod conds__perm1;
mod count_up__par;
mod multi_head__topar;
mod facts__run;
mod facts__redecl;
mod facts__ren;
mod opt_cols__run;
mod opt_cols__redecl;
mod cartesian__pari;
mod same_gen__ren;
mod not_reorderable__to;
mod pre_join_rec__pari;
mod two_inputs__par;
mod two_inputs__src1;
mod two_inputs__runpar;
mod two_inputs__strpar;
mod ternary__perm2;
mod bound_mix__pari;
mod join_chain__ser;
mod join_chain__u64;
mod reach__to;
mod lag_right__ser;
mod lag_right__permpar;
mod lag_left__topar;
mod lag_mid__pari;
mod lag_late_delta__ser;
mod multi_head_rec__to;
mod sp_dual__topar;
mod sp_dual__srcred;
mod sp_dual__perm2;
mod longest_capped__ser;
mod set_reach__to;
mod set_reach__srcto;
mod bset__ser;
mod cp__to;
mod lat_tree__to;
mod bool_lat__ser;
mod lat_multi_improve__pari;
mod lat_count_all__ser;
mod lat_input__pari;
mod lat_input__src2;
mod lat_input__srcpar;
mod count_paths__gen;
mod count_paths__init3;
mod neg_basic__topar;
mod neg_basic__srcred;
mod neg_basic__perm2;
mod agg_depth__ser;
mod agg_lattice__to;
mod neg_rec_after__exp;
mod agg_empty__to;
mod agg_const_args__par;
mod disj__par;
mod disj__src1;
mod disj__runpar;
mod disj_nested__ser;
mod pat_args__exp;
mod multi_head_disj__par;
mod neg_in_disj__exppar;
mod mac_basic__gen;
mod mac_basic__init3;
mod mac_capture__pari;
mod mac_gensym_disj__ser;
mod mac_local_names__exp;
mod mac_disj__par;
mod stress_set__par;
mod rnd_core_02__ser;
mod rnd_core_04__pari;
mod rnd_core_07__par;
mod rnd_core_10__ser;
mod rnd_core_12__pari;
mod rnd_core_15__par;
mod rnd_core_18__ser;
mod rnd_core_20__pari;
mod rnd_core_23__par;
mod rnd_core_26__ser;
mod rnd_core_28__pari;
mod rnd_agg_01__par;
mod rnd_agg_04__ser;
mod rnd_agg_06__pari;
mod rnd_agg_09__par;
mod rnd_agg_12__ser;
mod rnd_agg_14__pari;
mod rnd_prec_01__topar;
mod rnd_prec_03__pari;
mod rnd_prec_05__ser;
mod rnd_prec_06__to;
mod rnd_prec_08__par;
mod rnd_prea_02__par;
mod rnd_prea_05__ser;
mod rnd_prea_07__pari;

fn lookup(name: &str) -> fn() -> Box<dyn Driven> {
   match name {
      "tc_right__par" => tc_right__par::make,
      "tc_left__topar" => tc_left__topar::make,
      "tc_left__srcred" => tc_left__srcred::make,
      "tc_left__perm2" => tc_left__perm2::make,
      "tc_nonlin__pari" => tc_nonlin__pari::make,
      "tc_nonlin__u64" => tc_nonlin__u64::make,
      "mutual__mrt" => mutual__mrt::make,
      "mutual__init" => mutual__init::make,
      "mutual__permpar" => mutual__permpar::make,
      "scc_chain__topar" => scc_chain__topar::make,
      "diamond__ser" => diamond__ser::make,
      "repeated__pari" => repeated__pari::make,
      "three_dyn__ser" => three_dyn__ser::make,
      "three_dyn__permpar" => three_dyn__permpar::make,
      "conds__par" => conds__par::make,
      "conds__srcto" => conds__srcto::make,
      "conds__perm1" => conds__perm1::make,
      "count_up__par" => count_up__par::make,
      "multi_head__topar" => multi_head__topar::make,
      "facts__run" => facts__run::make,
      "facts__redecl" => facts__redecl::make,
      "facts__ren" => facts__ren::make,
      "opt_cols__run" => opt_cols__run::make,
      "opt_cols__redecl" => opt_cols__redecl::make,
      "cartesian__pari" => cartesian__pari::make,
      "same_gen__ren" => same_gen__ren::make,
      "not_reorderable__to" => not_reorderable__to::make,
      "pre_join_rec__pari" => pre_join_rec__pari::make,
      "two_inputs__par" => two_inputs__par::make,
      "two_inputs__src1" => two_inputs__src1::make,
      "two_inputs__runpar" => two_inputs__runpar::make,
      "two_inputs__strpar" => two_inputs__strpar::make,
      "ternary__perm2" => ternary__perm2::make,
      "bound_mix__pari" => bound_mix__pari::make,
      "join_chain__ser" => join_chain__ser::make,
      "join_chain__u64" => join_chain__u64::make,
      "reach__to" => reach__to::make,
      "lag_right__ser" => lag_right__ser::make,
      "lag_right__permpar" => lag_right__permpar::make,
      "lag_left__topar" => lag_left__topar::make,
      "lag_mid__pari" => lag_mid__pari::make,
      "lag_late_delta__ser" => lag_late_delta__ser::make,
      "multi_head_rec__to" => multi_head_rec__to::make,
      "sp_dual__topar" => sp_dual__topar::make,
      "sp_dual__srcred" => sp_dual__srcred::make,
      "sp_dual__perm2" => sp_dual__perm2::make,
      "longest_capped__ser" => longest_capped__ser::make,
      "set_reach__to" => set_reach__to::make,
      "set_reach__srcto" => set_reach__srcto::make,
      "bset__ser" => bset__ser::make,
      "cp__to" => cp__to::make,
      "lat_tree__to" => lat_tree__to::make,
      "bool_lat__ser" => bool_lat__ser::make,
      "lat_multi_improve__pari" => lat_multi_improve__pari::make,
      "lat_count_all__ser" => lat_count_all__ser::make,
      "lat_input__pari" => lat_input__pari::make,
      "lat_input__src2" => lat_input__src2::make,
      "lat_input__srcpar" => lat_input__srcpar::make,
      "count_paths__gen" => count_paths__gen::make,
      "count_paths__init3" => count_paths__init3::make,
      "neg_basic__topar" => neg_basic__topar::make,
      "neg_basic__srcred" => neg_basic__srcred::make,
      "neg_basic__perm2" => neg_basic__perm2::make,
      "agg_depth__ser" => agg_depth__ser::make,
      "agg_lattice__to" => agg_lattice__to::make,
      "neg_rec_after__exp" => neg_rec_after__exp::make,
      "agg_empty__to" => agg_empty__to::make,
      "agg_const_args__par" => agg_const_args__par::make,
      "disj__par" => disj__par::make,
      "disj__src1" => disj__src1::make,
      "disj__runpar" => disj__runpar::make,
      "disj_nested__ser" => disj_nested__ser::make,
      "pat_args__exp" => pat_args__exp::make,
      "multi_head_disj__par" => multi_head_disj__par::make,
      "neg_in_disj__exppar" => neg_in_disj__exppar::make,
      "mac_basic__gen" => mac_basic__gen::make,
      "mac_basic__init3" => mac_basic__init3::make,
      "mac_capture__pari" => mac_capture__pari::make,
      "mac_gensym_disj__ser" => mac_gensym_disj__ser::make,
      "mac_local_names__exp" => mac_local_names__exp::make,
      "mac_disj__par" => mac_disj__par::make,
      "stress_set__par" => stress_set__par::make,
      "rnd_core_02__ser" => rnd_core_02__ser::make,
      "rnd_core_04__pari" => rnd_core_04__pari::make,
      "rnd_core_07__par" => rnd_core_07__par::make,
      "rnd_core_10__ser" => rnd_core_10__ser::make,
      "rnd_core_12__pari" => rnd_core_12__pari::make,
      "rnd_core_15__par" => rnd_core_15__par::make,
      "rnd_core_18__ser" => rnd_core_18__ser::make,
      "rnd_core_20__pari" => rnd_core_20__pari::make,
      "rnd_core_23__par" => rnd_core_23__par::make,
      "rnd_core_26__ser" => rnd_core_26__ser::make,
      "rnd_core_28__pari" => rnd_core_28__pari::make,
      "rnd_agg_01__par" => rnd_agg_01__par::make,
      "rnd_agg_04__ser" => rnd_agg_04__ser::make,
      "rnd_agg_06__pari" => rnd_agg_06__pari::make,
      "rnd_agg_09__par" => rnd_agg_09__par::make,
      "rnd_agg_12__ser" => rnd_agg_12__ser::make,
      "rnd_agg_14__pari" => rnd_agg_14__pari::make,
      "rnd_prec_01__topar" => rnd_prec_01__topar::make,
      "rnd_prec_03__pari" => rnd_prec_03__pari::make,
      "rnd_prec_05__ser" => rnd_prec_05__ser::make,
      "rnd_prec_06__to" => rnd_prec_06__to::make,
      "rnd_prec_08__par" => rnd_prec_08__par::make,
      "rnd_prea_02__par" => rnd_prea_02__par::make,
      "rnd_prea_05__ser" => rnd_prea_05__ser::make,
      "rnd_prea_07__pari" => rnd_prea_07__pari::make,
      _ => panic!("no such program variant in this shard: {}", name),
   }
}

fn main() {
   quiet_panics();
   let mut out = Out::open();
   let cases = read_cases();
   let mut i = 0;
   while i < cases.len() {
      let case = &cases[i];
      let m = format!("{}__{}", case["prog"].as_str().unwrap(), case["var"].as_str().unwrap());
      if let Some(g) = case["group"].as_i64() {
         // cases of one group run simultaneously
         let mut grp = vec![];
         while i < cases.len() && cases[i]["group"].as_i64() == Some(g) {
            let m = format!("{}__{}", cases[i]["prog"].as_str().unwrap(), cases[i]["var"].as_str().unwrap());
            grp.push((cases[i].clone(), lookup(&m)));
            i += 1;
         }
         drive_group(&grp, &mut out);
      } else {
         drive(case, &mut out, lookup(&m));
         i += 1;
      }
   }
   out.flush();
}
