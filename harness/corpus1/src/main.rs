#![allow(unused_imports, unused_variables, unused_mut, dead_code, non_snake_case, unused_parens, clippy::all)]
use ascent::lattice::bounded_set::BoundedSet;
use ascent::lattice::constant_propagation::ConstPropagation;
use ascent::lattice::set::Set;
use ascent::lattice::Product;
use ascent::{Dual, Lattice};
use vh_lite::{rows_json, Driven, Value};

use vh_lite::{read_cases, drive, drive_group, quiet_panics, Out};

mod tc_right__par;
mod tc_left__topar;
mod tc_left__redecl;
mod tc_left__str;
mod tc_nonlin__perm1;
mod mutual__par;
mod mutual__src1;
mod mutual__perm2;
mod scc_chain__pari;
mod scc_chain__u64;
mod repeated__ser;
mod repeated__u64;
mod three_dyn__perm2;
mod four_dyn__pari;
mod conds__src1;
mod conds__perm2;
mod count_up__pari;
mod multi_head__perm1;
mod facts__mrt;
mod facts__runpar;
mod facts__strpar;
mod opt_cols__src1;
mod cartesian__par;
mod same_gen__perm2;
mod not_reorderable__pari;
mod two_inputs__gen;
mod two_inputs__srcpar;
mod wild__ser;
mod ternary__ren;
mod bound_mix__perm1;
mod join_chain__par;
mod join_chain__strpar;
mod reach__topar;
mod lag_right__par;
mod lag_right__str;
mod lag_three__ser;
mod lag_mid__perm1;
mod lag_late_delta__par;
mod multi_head_rec__topar;
mod sp_dual__run;
mod sp_dual__init;
mod sp_weighted__par;
mod longest_capped__topar;
mod set_reach__gen;
mod set_reach__srcpar;
mod cp__pari;
mod lex_lat__pari;
mod lat_multi_improve__par;
mod lat_input__par;
mod lat_input__src1;
mod count_paths__par;
mod count_paths__src1;
mod neg_basic__par;
mod neg_basic__src1;
mod neg_basic__perm2;
mod agg_depth__ser;
mod agg_lattice__to;
mod neg_rec_after__exp;
mod agg_empty__to;
mod agg_const_args__par;
mod disj__topar;
mod disj__redecl;
mod disj__exp;
mod pat_args__par;
mod rep_expr__exppar;
mod neg_in_disj__pari;
mod mac_basic__run;
mod mac_basic__init;
mod mac_capture__exp;
mod mac_gensym_disj__par;
mod mac_disj__exppar;
mod rnd_core_03__par;
mod rnd_core_06__ser;
mod rnd_core_08__pari;
mod rnd_core_11__par;
mod rnd_core_14__ser;
mod rnd_core_16__pari;
mod rnd_core_19__par;
mod rnd_core_22__ser;
mod rnd_core_24__pari;
mod rnd_core_27__par;
mod rnd_core_30__ser;
mod rnd_agg_02__pari;
mod rnd_agg_05__par;
mod rnd_agg_08__ser;
mod rnd_agg_10__pari;
mod rnd_agg_13__par;

fn lookup(name: &str) -> fn() -> Box<dyn Driven> {
   match name {
      "tc_right__par" => tc_right__par::make,
      "tc_left__topar" => tc_left__topar::make,
      "tc_left__redecl" => tc_left__redecl::make,
      "tc_left__str" => tc_left__str::make,
      "tc_nonlin__perm1" => tc_nonlin__perm1::make,
      "mutual__par" => mutual__par::make,
      "mutual__src1" => mutual__src1::make,
      "mutual__perm2" => mutual__perm2::make,
      "scc_chain__pari" => scc_chain__pari::make,
      "scc_chain__u64" => scc_chain__u64::make,
      "repeated__ser" => repeated__ser::make,
      "repeated__u64" => repeated__u64::make,
      "three_dyn__perm2" => three_dyn__perm2::make,
      "four_dyn__pari" => four_dyn__pari::make,
      "conds__src1" => conds__src1::make,
      "conds__perm2" => conds__perm2::make,
      "count_up__pari" => count_up__pari::make,
      "multi_head__perm1" => multi_head__perm1::make,
      "facts__mrt" => facts__mrt::make,
      "facts__runpar" => facts__runpar::make,
      "facts__strpar" => facts__strpar::make,
      "opt_cols__src1" => opt_cols__src1::make,
      "cartesian__par" => cartesian__par::make,
      "same_gen__perm2" => same_gen__perm2::make,
      "not_reorderable__pari" => not_reorderable__pari::make,
      "two_inputs__gen" => two_inputs__gen::make,
      "two_inputs__srcpar" => two_inputs__srcpar::make,
      "wild__ser" => wild__ser::make,
      "ternary__ren" => ternary__ren::make,
      "bound_mix__perm1" => bound_mix__perm1::make,
      "join_chain__par" => join_chain__par::make,
      "join_chain__strpar" => join_chain__strpar::make,
      "reach__topar" => reach__topar::make,
      "lag_right__par" => lag_right__par::make,
      "lag_right__str" => lag_right__str::make,
      "lag_three__ser" => lag_three__ser::make,
      "lag_mid__perm1" => lag_mid__perm1::make,
      "lag_late_delta__par" => lag_late_delta__par::make,
      "multi_head_rec__topar" => multi_head_rec__topar::make,
      "sp_dual__run" => sp_dual__run::make,
      "sp_dual__init" => sp_dual__init::make,
      "sp_weighted__par" => sp_weighted__par::make,
      "longest_capped__topar" => longest_capped__topar::make,
      "set_reach__gen" => set_reach__gen::make,
      "set_reach__srcpar" => set_reach__srcpar::make,
      "cp__pari" => cp__pari::make,
      "lex_lat__pari" => lex_lat__pari::make,
      "lat_multi_improve__par" => lat_multi_improve__par::make,
      "lat_input__par" => lat_input__par::make,
      "lat_input__src1" => lat_input__src1::make,
      "count_paths__par" => count_paths__par::make,
      "count_paths__src1" => count_paths__src1::make,
      "neg_basic__par" => neg_basic__par::make,
      "neg_basic__src1" => neg_basic__src1::make,
      "neg_basic__perm2" => neg_basic__perm2::make,
      "agg_depth__ser" => agg_depth__ser::make,
      "agg_lattice__to" => agg_lattice__to::make,
      "neg_rec_after__exp" => neg_rec_after__exp::make,
      "agg_empty__to" => agg_empty__to::make,
      "agg_const_args__par" => agg_const_args__par::make,
      "disj__topar" => disj__topar::make,
      "disj__redecl" => disj__redecl::make,
      "disj__exp" => disj__exp::make,
      "pat_args__par" => pat_args__par::make,
      "rep_expr__exppar" => rep_expr__exppar::make,
      "neg_in_disj__pari" => neg_in_disj__pari::make,
      "mac_basic__run" => mac_basic__run::make,
      "mac_basic__init" => mac_basic__init::make,
      "mac_capture__exp" => mac_capture__exp::make,
      "mac_gensym_disj__par" => mac_gensym_disj__par::make,
      "mac_disj__exppar" => mac_disj__exppar::make,
      "rnd_core_03__par" => rnd_core_03__par::make,
      "rnd_core_06__ser" => rnd_core_06__ser::make,
      "rnd_core_08__pari" => rnd_core_08__pari::make,
      "rnd_core_11__par" => rnd_core_11__par::make,
      "rnd_core_14__ser" => rnd_core_14__ser::make,
      "rnd_core_16__pari" => rnd_core_16__pari::make,
      "rnd_core_19__par" => rnd_core_19__par::make,
      "rnd_core_22__ser" => rnd_core_22__ser::make,
      "rnd_core_24__pari" => rnd_core_24__pari::make,
      "rnd_core_27__par" => rnd_core_27__par::make,
      "rnd_core_30__ser" => rnd_core_30__ser::make,
      "rnd_agg_02__pari" => rnd_agg_02__pari::make,
      "rnd_agg_05__par" => rnd_agg_05__par::make,
      "rnd_agg_08__ser" => rnd_agg_08__ser::make,
      "rnd_agg_10__pari" => rnd_agg_10__pari::make,
      "rnd_agg_13__par" => rnd_agg_13__par::make,
      _ => panic!("no such program variant in this shard: {}", name),
   }
}

fn main() {
   quiet_panics();
   let mut out = Out::open();
   let cases = read_cases();
   let mut i = 0;
   while i < cases.len() {
      let case = &cases[i];
      let m = format!("{}__{}", case["prog"].as_str().unwrap(), case["var"].as_str().unwrap());
      if let Some(g) = case["group"].as_i64() {
         // cases of one group run simultaneously
         let mut grp = vec![];
         while i < cases.len() && cases[i]["group"].as_i64() == Some(g) {
            let m = format!("{}__{}", cases[i]["prog"].as_str().unwrap(), cases[i]["var"].as_str().unwrap());
            grp.push((cases[i].clone(), lookup(&m)));
            i += 1;
         }
         drive_group(&grp, &mut out);
      } else {
         drive(case, &mut out, lookup(&m));
         i += 1;
      }
   }
   out.flush();
}
