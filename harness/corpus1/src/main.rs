#![allow(unused_imports, unused_variables, unused_mut, dead_code, non_snake_case, unused_parens, clippy::all)]
use ascent::lattice::bounded_set::BoundedSet;
use ascent::lattice::constant_propagation::ConstPropagation;
use ascent::lattice::set::Set;
use ascent::lattice::Product;
use ascent::{Dual, Lattice};
use vh_lite::{rows_json, Driven, Value};

use vh_lite::{read_cases, drive, drive_group, quiet_panics, Out};

mod tc_right__par;
mod tc_left__topar;
mod tc_left__init;
mod tc_left__u64;
mod tc_nonlin__perm2;
mod mutual__pari;
mod mutual__src2;
mod mutual__permpar;
mod scc_chain__topar;
mod diamond__ser;
mod repeated__pari;
mod three_dyn__ser;
mod three_dyn__permpar;
mod conds__par;
mod conds__redecl;
mod expr_args__ser;
mod multi_head__ser;
mod multi_head__permpar;
mod facts__src1;
mod facts__ren;
mod opt_cols__run;
mod opt_cols__runpar;
mod same_gen__to;
mod same_gen__strpar;
mod two_inputs__topar;
mod two_inputs__init;
mod two_inputs__u64;
mod ternary__perm1;
mod bound_mix__par;
mod bound_mix__strpar;
mod join_chain__str;
mod reach__pari;
mod self_join3__pari;
mod lag_right__ren;
mod lag_left__to;
mod lag_mid__par;
mod lag_mid__strpar;
mod sp_dual__pari;
mod sp_dual__src2;
mod sp_dual__permpar;
mod longest_capped__pari;
mod set_reach__run;
mod set_reach__runpar;
mod cp__to;
mod bool_lat__ser;
mod lat_multi_improve__pari;
mod count_paths__pari;
mod count_paths__src2;
mod neg_basic__to;
mod neg_basic__redecl;
mod neg_basic__exp;
mod agg_depth__to;
mod agg_user__par;
mod agg_bound_mix__par;
mod agg_empty_rel__par;
mod agg_const_args__exppar;
mod disj__gen;
mod disj__perm1;
mod disj_nested__pari;
mod rep_expr__ser;
mod multi_head_disj__exp;
mod mac_basic__par;
mod mac_basic__src1;
mod mac_capture__ser;
mod mac_nested__exp;
mod mac_disj__par;

fn lookup(name: &str) -> fn() -> Box<dyn Driven> {
   match name {
      "tc_right__par" => tc_right__par::make,
      "tc_left__topar" => tc_left__topar::make,
      "tc_left__init" => tc_left__init::make,
      "tc_left__u64" => tc_left__u64::make,
      "tc_nonlin__perm2" => tc_nonlin__perm2::make,
      "mutual__pari" => mutual__pari::make,
      "mutual__src2" => mutual__src2::make,
      "mutual__permpar" => mutual__permpar::make,
      "scc_chain__topar" => scc_chain__topar::make,
      "diamond__ser" => diamond__ser::make,
      "repeated__pari" => repeated__pari::make,
      "three_dyn__ser" => three_dyn__ser::make,
      "three_dyn__permpar" => three_dyn__permpar::make,
      "conds__par" => conds__par::make,
      "conds__redecl" => conds__redecl::make,
      "expr_args__ser" => expr_args__ser::make,
      "multi_head__ser" => multi_head__ser::make,
      "multi_head__permpar" => multi_head__permpar::make,
      "facts__src1" => facts__src1::make,
      "facts__ren" => facts__ren::make,
      "opt_cols__run" => opt_cols__run::make,
      "opt_cols__runpar" => opt_cols__runpar::make,
      "same_gen__to" => same_gen__to::make,
      "same_gen__strpar" => same_gen__strpar::make,
      "two_inputs__topar" => two_inputs__topar::make,
      "two_inputs__init" => two_inputs__init::make,
      "two_inputs__u64" => two_inputs__u64::make,
      "ternary__perm1" => ternary__perm1::make,
      "bound_mix__par" => bound_mix__par::make,
      "bound_mix__strpar" => bound_mix__strpar::make,
      "join_chain__str" => join_chain__str::make,
      "reach__pari" => reach__pari::make,
      "self_join3__pari" => self_join3__pari::make,
      "lag_right__ren" => lag_right__ren::make,
      "lag_left__to" => lag_left__to::make,
      "lag_mid__par" => lag_mid__par::make,
      "lag_mid__strpar" => lag_mid__strpar::make,
      "sp_dual__pari" => sp_dual__pari::make,
      "sp_dual__src2" => sp_dual__src2::make,
      "sp_dual__permpar" => sp_dual__permpar::make,
      "longest_capped__pari" => longest_capped__pari::make,
      "set_reach__run" => set_reach__run::make,
      "set_reach__runpar" => set_reach__runpar::make,
      "cp__to" => cp__to::make,
      "bool_lat__ser" => bool_lat__ser::make,
      "lat_multi_improve__pari" => lat_multi_improve__pari::make,
      "count_paths__pari" => count_paths__pari::make,
      "count_paths__src2" => count_paths__src2::make,
      "neg_basic__to" => neg_basic__to::make,
      "neg_basic__redecl" => neg_basic__redecl::make,
      "neg_basic__exp" => neg_basic__exp::make,
      "agg_depth__to" => agg_depth__to::make,
      "agg_user__par" => agg_user__par::make,
      "agg_bound_mix__par" => agg_bound_mix__par::make,
      "agg_empty_rel__par" => agg_empty_rel__par::make,
      "agg_const_args__exppar" => agg_const_args__exppar::make,
      "disj__gen" => disj__gen::make,
      "disj__perm1" => disj__perm1::make,
      "disj_nested__pari" => disj_nested__pari::make,
      "rep_expr__ser" => rep_expr__ser::make,
      "multi_head_disj__exp" => multi_head_disj__exp::make,
      "mac_basic__par" => mac_basic__par::make,
      "mac_basic__src1" => mac_basic__src1::make,
      "mac_capture__ser" => mac_capture__ser::make,
      "mac_nested__exp" => mac_nested__exp::make,
      "mac_disj__par" => mac_disj__par::make,
      _ => panic!("no such program variant in this shard: {}", name),
   }
}

fn main() {
   quiet_panics();
   let mut out = Out::open();
   let cases = read_cases();
   let mut i = 0;
   while i < cases.len() {
      let case = &cases[i];
      let m = format!("{}__{}", case["prog"].as_str().unwrap(), case["var"].as_str().unwrap());
      if let Some(g) = case["group"].as_i64() {
         // cases of one group run simultaneously
         let mut grp = vec![];
         while i < cases.len() && cases[i]["group"].as_i64() == Some(g) {
            let m = format!("{}__{}", cases[i]["prog"].as_str().unwrap(), cases[i]["var"].as_str().unwrap());
            grp.push((cases[i].clone(), lookup(&m)));
            i += 1;
         }
         drive_group(&grp, &mut out);
      } else {
         drive(case, &mut out, lookup(&m));
         i += 1;
      }
   }
   out.flush();
}
