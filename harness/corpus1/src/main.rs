#![allow(unused_imports, unused_variables, unused_mut, dead_code, non_snake_case, unused_parens, clippy::all)]
use ascent::lattice::bounded_set::BoundedSet;
use ascent::lattice::constant_propagation::ConstPropagation;
use ascent::lattice::set::Set;
use ascent::lattice::Product;
use ascent::{Dual, Lattice};
use vh_lite::{rows_json, Driven, Value};

use vh_lite::{read_cases, drive, drive_group, quiet_panics, Out};

mod tc_right__par;
mod tc_left__topar;
mod tc_left__redecl;
mod tc_left__str;
mod tc_nonlin__perm1;
mod mutual__par;
mod mutual__src1;
mod mutual__perm2;
mod scc_chain__pari;
mod scc_chain__u64;
mod repeated__ser;
mod repeated__u64;
mod three_dyn__perm2;
mod four_dyn__pari;
mod conds__src1;
mod conds__perm2;
mod count_up__pari;
mod multi_head__perm1;
mod facts__mrt;
mod facts__runpar;
mod facts__strpar;
mod opt_cols__src1;
mod cartesian__par;
mod same_gen__perm2;
mod not_reorderable__pari;
mod pre_join_rec__par;
mod two_inputs__ser;
mod two_inputs__src0;
mod two_inputs__perm1;
mod wild__par;
mod ternary__permpar;
mod bound_mix__perm2;
mod join_chain__pari;
mod cond_simple_join__ser;
mod zero_arity__ser;
mod lag_right__pari;
mod lag_right__u64;
mod lag_three__par;
mod lag_mid__perm2;
mod lag_late_delta__pari;
mod multi_head_rec__exp;
mod sp_dual__mrt;
mod sp_dual__runpar;
mod sp_weighted__pari;
mod set_reach__ser;
mod set_reach__src0;
mod bset__ser;
mod cp__to;
mod bool_lat__ser;
mod lat_multi_improve__pari;
mod lat_count_all__ser;
mod lat_input__pari;
mod lat_input__src2;
mod count_paths__pari;
mod count_paths__src2;
mod neg_basic__pari;
mod neg_basic__src2;
mod neg_basic__ren;
mod agg_depth__par;
mod agg_lattice__topar;
mod neg_rec_after__exppar;
mod agg_empty__topar;
mod agg_const_args__pari;
mod disj__pari;
mod disj__src2;
mod disj__ren;
mod disj_nested__exppar;
mod rep_expr__pari;
mod neg_in_disj__ser;
mod mac_basic__to;
mod mac_basic__srcto;
mod mac_capture__par;
mod mac_nested__exppar;
mod mac_disj__pari;
mod stress_rel__pari;
mod rnd_core_03__par;
mod rnd_core_06__ser;
mod rnd_core_08__pari;
mod rnd_core_11__par;
mod rnd_core_14__ser;
mod rnd_core_16__pari;
mod rnd_core_19__par;
mod rnd_core_22__ser;
mod rnd_core_24__pari;
mod rnd_core_27__par;
mod rnd_core_30__ser;
mod rnd_agg_02__pari;
mod rnd_agg_05__par;
mod rnd_agg_08__ser;
mod rnd_agg_10__pari;
mod rnd_agg_13__par;
mod rnd_prec_01__ser;
mod rnd_prec_02__to;
mod rnd_prec_04__par;
mod rnd_prec_05__topar;
mod rnd_prec_07__pari;
mod rnd_prea_01__ser;
mod rnd_prea_03__pari;
mod rnd_prea_06__par;

fn lookup(name: &str) -> fn() -> Box<dyn Driven> {
   match name {
      "tc_right__par" => tc_right__par::make,
      "tc_left__topar" => tc_left__topar::make,
      "tc_left__redecl" => tc_left__redecl::make,
      "tc_left__str" => tc_left__str::make,
      "tc_nonlin__perm1" => tc_nonlin__perm1::make,
      "mutual__par" => mutual__par::make,
      "mutual__src1" => mutual__src1::make,
      "mutual__perm2" => mutual__perm2::make,
      "scc_chain__pari" => scc_chain__pari::make,
      "scc_chain__u64" => scc_chain__u64::make,
      "repeated__ser" => repeated__ser::make,
      "repeated__u64" => repeated__u64::make,
      "three_dyn__perm2" => three_dyn__perm2::make,
      "four_dyn__pari" => four_dyn__pari::make,
      "conds__src1" => conds__src1::make,
      "conds__perm2" => conds__perm2::make,
      "count_up__pari" => count_up__pari::make,
      "multi_head__perm1" => multi_head__perm1::make,
      "facts__mrt" => facts__mrt::make,
      "facts__runpar" => facts__runpar::make,
      "facts__strpar" => facts__strpar::make,
      "opt_cols__src1" => opt_cols__src1::make,
      "cartesian__par" => cartesian__par::make,
      "same_gen__perm2" => same_gen__perm2::make,
      "not_reorderable__pari" => not_reorderable__pari::make,
      "pre_join_rec__par" => pre_join_rec__par::make,
      "two_inputs__ser" => two_inputs__ser::make,
      "two_inputs__src0" => two_inputs__src0::make,
      "two_inputs__perm1" => two_inputs__perm1::make,
      "wild__par" => wild__par::make,
      "ternary__permpar" => ternary__permpar::make,
      "bound_mix__perm2" => bound_mix__perm2::make,
      "join_chain__pari" => join_chain__pari::make,
      "cond_simple_join__ser" => cond_simple_join__ser::make,
      "zero_arity__ser" => zero_arity__ser::make,
      "lag_right__pari" => lag_right__pari::make,
      "lag_right__u64" => lag_right__u64::make,
      "lag_three__par" => lag_three__par::make,
      "lag_mid__perm2" => lag_mid__perm2::make,
      "lag_late_delta__pari" => lag_late_delta__pari::make,
      "multi_head_rec__exp" => multi_head_rec__exp::make,
      "sp_dual__mrt" => sp_dual__mrt::make,
      "sp_dual__runpar" => sp_dual__runpar::make,
      "sp_weighted__pari" => sp_weighted__pari::make,
      "set_reach__ser" => set_reach__ser::make,
      "set_reach__src0" => set_reach__src0::make,
      "bset__ser" => bset__ser::make,
      "cp__to" => cp__to::make,
      "bool_lat__ser" => bool_lat__ser::make,
      "lat_multi_improve__pari" => lat_multi_improve__pari::make,
      "lat_count_all__ser" => lat_count_all__ser::make,
      "lat_input__pari" => lat_input__pari::make,
      "lat_input__src2" => lat_input__src2::make,
      "count_paths__pari" => count_paths__pari::make,
      "count_paths__src2" => count_paths__src2::make,
      "neg_basic__pari" => neg_basic__pari::make,
      "neg_basic__src2" => neg_basic__src2::make,
      "neg_basic__ren" => neg_basic__ren::make,
      "agg_depth__par" => agg_depth__par::make,
      "agg_lattice__topar" => agg_lattice__topar::make,
      "neg_rec_after__exppar" => neg_rec_after__exppar::make,
      "agg_empty__topar" => agg_empty__topar::make,
      "agg_const_args__pari" => agg_const_args__pari::make,
      "disj__pari" => disj__pari::make,
      "disj__src2" => disj__src2::make,
      "disj__ren" => disj__ren::make,
      "disj_nested__exppar" => disj_nested__exppar::make,
      "rep_expr__pari" => rep_expr__pari::make,
      "neg_in_disj__ser" => neg_in_disj__ser::make,
      "mac_basic__to" => mac_basic__to::make,
      "mac_basic__srcto" => mac_basic__srcto::make,
      "mac_capture__par" => mac_capture__par::make,
      "mac_nested__exppar" => mac_nested__exppar::make,
      "mac_disj__pari" => mac_disj__pari::make,
      "stress_rel__pari" => stress_rel__pari::make,
      "rnd_core_03__par" => rnd_core_03__par::make,
      "rnd_core_06__ser" => rnd_core_06__ser::make,
      "rnd_core_08__pari" => rnd_core_08__pari::make,
      "rnd_core_11__par" => rnd_core_11__par::make,
      "rnd_core_14__ser" => rnd_core_14__ser::make,
      "rnd_core_16__pari" => rnd_core_16__pari::make,
      "rnd_core_19__par" => rnd_core_19__par::make,
      "rnd_core_22__ser" => rnd_core_22__ser::make,
      "rnd_core_24__pari" => rnd_core_24__pari::make,
      "rnd_core_27__par" => rnd_core_27__par::make,
      "rnd_core_30__ser" => rnd_core_30__ser::make,
      "rnd_agg_02__pari" => rnd_agg_02__pari::make,
      "rnd_agg_05__par" => rnd_agg_05__par::make,
      "rnd_agg_08__ser" => rnd_agg_08__ser::make,
      "rnd_agg_10__pari" => rnd_agg_10__pari::make,
      "rnd_agg_13__par" => rnd_agg_13__par::make,
      "rnd_prec_01__ser" => rnd_prec_01__ser::make,
      "rnd_prec_02__to" => rnd_prec_02__to::make,
      "rnd_prec_04__par" => rnd_prec_04__par::make,
      "rnd_prec_05__topar" => rnd_prec_05__topar::make,
      "rnd_prec_07__pari" => rnd_prec_07__pari::make,
      "rnd_prea_01__ser" => rnd_prea_01__ser::make,
      "rnd_prea_03__pari" => rnd_prea_03__pari::make,
      "rnd_prea_06__par" => rnd_prea_06__par::make,
      _ => panic!("no such program variant in this shard: {}", name),
   }
}

fn main() {
   quiet_panics();
   let mut out = Out::open();
   let cases = read_cases();
   let mut i = 0;
   while i < cases.len() {
      let case = &cases[i];
      let m = format!("{}__{}", case["prog"].as_str().unwrap(), case["var"].as_str().unwrap());
      if let Some(g) = case["group"].as_i64() {
         // cases of one group run simultaneously
         let mut grp = vec![];
         while i < cases.len() && cases[i]["group"].as_i64() == Some(g) {
            let m = format!("{}__{}", cases[i]["prog"].as_str().unwrap(), cases[i]["var"].as_str().unwrap());
            grp.push((cases[i].clone(), lookup(&m)));
            i += 1;
         }
         drive_group(&grp, &mut out);
      } else {
         drive(case, &mut out, lookup(&m));
         i += 1;
      }
   }
   out.flush();
}
