#![allow(unused_imports, unused_variables, unused_mut, dead_code, non_snake_case, unused_parens, clippy::all)]
use ascent::lattice::bounded_set::BoundedSet;
use ascent::lattice::constant_propagation::ConstPropagation;
use ascent::lattice::set::Set;
use ascent::lattice::Product;
use ascent::{Dual, Lattice};
use vh_lite::{rows_json, Driven, Value};

use vh_lite::{read_cases, drive, drive_group, quiet_panics, Out};

mod tc_right__par;
mod tc_left__topar;
mod tc_left__srcred;
mod tc_left__permpar;
mod tc_nonlin__topar;
mod mutual__ser;
mod mutual__src0;
mod mutual__srcpar;
mod scc_chain__ser;
mod scc_chain__permpar;
mod consts__par;
mod repeated__permpar;
mod three_dyn__topar;
mod four_dyn__ser;
mod conds__gen;
mod conds__runpar;
mod expr_args__pari;
mod multi_head__pari;
mod facts__par;
mod facts__srcto;
mod facts__ren;
mod opt_cols__run;
mod opt_cols__redecl;
mod same_gen__par;
mod same_gen__str;
mod not_reorderable__perm1;
mod pre_join_rec__topar;
mod two_inputs__to;
mod two_inputs__srcto;
mod two_inputs__ren;
mod ternary__ser;
mod ternary__u64;
mod bound_mix__permpar;
mod join_chain__perm2;
mod cond_simple_join__pari;
mod zero_arity__pari;
mod lag_right__topar;
mod lag_left__ser;
mod lag_three__to;
mod lag_mid__permpar;
mod lag_late_delta__topar;
mod sp_dual__ser;
mod sp_dual__src0;
mod sp_dual__srcpar;
mod sp_weighted__to;
mod set_reach__par;
mod set_reach__src1;
mod bset__ser;
mod cp__to;
mod lat_tree__to;
mod bool_lat__ser;
mod lat_multi_improve__pari;
mod lat_count_all__ser;
mod lat_input__pari;
mod lat_input__src2;
mod count_paths__par;
mod count_paths__src1;
mod neg_basic__ser;
mod neg_basic__src0;
mod neg_basic__srcpar;
mod agg_minmaxsum__par;
mod agg_lattice__par;
mod neg_rec_after__par;
mod agg_empty__par;
mod agg_empty_rel__topar;
mod agg_pre_join__pari;
mod disj__gen;
mod disj__runpar;
mod disj_nested__ser;
mod pat_args__exp;
mod multi_head_disj__par;
mod neg_in_disj__exppar;
mod mac_basic__gen;
mod mac_basic__runpar;
mod mac_capture__exppar;
mod mac_gensym_disj__pari;
mod mac_block__ser;
mod mac_disj__exp;
mod stress_rel__ser;
mod rnd_core_02__pari;
mod rnd_core_05__par;
mod rnd_core_08__ser;
mod rnd_core_10__pari;
mod rnd_core_13__par;
mod rnd_core_16__ser;
mod rnd_core_18__pari;
mod rnd_core_21__par;
mod rnd_core_24__ser;
mod rnd_core_26__pari;
mod rnd_core_29__par;
mod rnd_agg_02__ser;
mod rnd_agg_04__pari;
mod rnd_agg_07__par;
mod rnd_agg_10__ser;
mod rnd_agg_12__pari;
mod rnd_agg_15__par;
mod rnd_prec_02__par;
mod rnd_prec_03__topar;
mod rnd_prec_05__pari;
mod rnd_prec_07__ser;
mod rnd_prec_08__to;
mod rnd_prea_03__ser;
mod rnd_prea_05__pari;
mod rnd_prea_08__par;

fn lookup(name: &str) -> fn() -> Box<dyn Driven> {
   match name {
      "tc_right__par" => tc_right__par::make,
      "tc_left__topar" => tc_left__topar::make,
      "tc_left__srcred" => tc_left__srcred::make,
      "tc_left__permpar" => tc_left__permpar::make,
      "tc_nonlin__topar" => tc_nonlin__topar::make,
      "mutual__ser" => mutual__ser::make,
      "mutual__src0" => mutual__src0::make,
      "mutual__srcpar" => mutual__srcpar::make,
      "scc_chain__ser" => scc_chain__ser::make,
      "scc_chain__permpar" => scc_chain__permpar::make,
      "consts__par" => consts__par::make,
      "repeated__permpar" => repeated__permpar::make,
      "three_dyn__topar" => three_dyn__topar::make,
      "four_dyn__ser" => four_dyn__ser::make,
      "conds__gen" => conds__gen::make,
      "conds__runpar" => conds__runpar::make,
      "expr_args__pari" => expr_args__pari::make,
      "multi_head__pari" => multi_head__pari::make,
      "facts__par" => facts__par::make,
      "facts__srcto" => facts__srcto::make,
      "facts__ren" => facts__ren::make,
      "opt_cols__run" => opt_cols__run::make,
      "opt_cols__redecl" => opt_cols__redecl::make,
      "same_gen__par" => same_gen__par::make,
      "same_gen__str" => same_gen__str::make,
      "not_reorderable__perm1" => not_reorderable__perm1::make,
      "pre_join_rec__topar" => pre_join_rec__topar::make,
      "two_inputs__to" => two_inputs__to::make,
      "two_inputs__srcto" => two_inputs__srcto::make,
      "two_inputs__ren" => two_inputs__ren::make,
      "ternary__ser" => ternary__ser::make,
      "ternary__u64" => ternary__u64::make,
      "bound_mix__permpar" => bound_mix__permpar::make,
      "join_chain__perm2" => join_chain__perm2::make,
      "cond_simple_join__pari" => cond_simple_join__pari::make,
      "zero_arity__pari" => zero_arity__pari::make,
      "lag_right__topar" => lag_right__topar::make,
      "lag_left__ser" => lag_left__ser::make,
      "lag_three__to" => lag_three__to::make,
      "lag_mid__permpar" => lag_mid__permpar::make,
      "lag_late_delta__topar" => lag_late_delta__topar::make,
      "sp_dual__ser" => sp_dual__ser::make,
      "sp_dual__src0" => sp_dual__src0::make,
      "sp_dual__srcpar" => sp_dual__srcpar::make,
      "sp_weighted__to" => sp_weighted__to::make,
      "set_reach__par" => set_reach__par::make,
      "set_reach__src1" => set_reach__src1::make,
      "bset__ser" => bset__ser::make,
      "cp__to" => cp__to::make,
      "lat_tree__to" => lat_tree__to::make,
      "bool_lat__ser" => bool_lat__ser::make,
      "lat_multi_improve__pari" => lat_multi_improve__pari::make,
      "lat_count_all__ser" => lat_count_all__ser::make,
      "lat_input__pari" => lat_input__pari::make,
      "lat_input__src2" => lat_input__src2::make,
      "count_paths__par" => count_paths__par::make,
      "count_paths__src1" => count_paths__src1::make,
      "neg_basic__ser" => neg_basic__ser::make,
      "neg_basic__src0" => neg_basic__src0::make,
      "neg_basic__srcpar" => neg_basic__srcpar::make,
      "agg_minmaxsum__par" => agg_minmaxsum__par::make,
      "agg_lattice__par" => agg_lattice__par::make,
      "neg_rec_after__par" => neg_rec_after__par::make,
      "agg_empty__par" => agg_empty__par::make,
      "agg_empty_rel__topar" => agg_empty_rel__topar::make,
      "agg_pre_join__pari" => agg_pre_join__pari::make,
      "disj__gen" => disj__gen::make,
      "disj__runpar" => disj__runpar::make,
      "disj_nested__ser" => disj_nested__ser::make,
      "pat_args__exp" => pat_args__exp::make,
      "multi_head_disj__par" => multi_head_disj__par::make,
      "neg_in_disj__exppar" => neg_in_disj__exppar::make,
      "mac_basic__gen" => mac_basic__gen::make,
      "mac_basic__runpar" => mac_basic__runpar::make,
      "mac_capture__exppar" => mac_capture__exppar::make,
      "mac_gensym_disj__pari" => mac_gensym_disj__pari::make,
      "mac_block__ser" => mac_block__ser::make,
      "mac_disj__exp" => mac_disj__exp::make,
      "stress_rel__ser" => stress_rel__ser::make,
      "rnd_core_02__pari" => rnd_core_02__pari::make,
      "rnd_core_05__par" => rnd_core_05__par::make,
      "rnd_core_08__ser" => rnd_core_08__ser::make,
      "rnd_core_10__pari" => rnd_core_10__pari::make,
      "rnd_core_13__par" => rnd_core_13__par::make,
      "rnd_core_16__ser" => rnd_core_16__ser::make,
      "rnd_core_18__pari" => rnd_core_18__pari::make,
      "rnd_core_21__par" => rnd_core_21__par::make,
      "rnd_core_24__ser" => rnd_core_24__ser::make,
      "rnd_core_26__pari" => rnd_core_26__pari::make,
      "rnd_core_29__par" => rnd_core_29__par::make,
      "rnd_agg_02__ser" => rnd_agg_02__ser::make,
      "rnd_agg_04__pari" => rnd_agg_04__pari::make,
      "rnd_agg_07__par" => rnd_agg_07__par::make,
      "rnd_agg_10__ser" => rnd_agg_10__ser::make,
      "rnd_agg_12__pari" => rnd_agg_12__pari::make,
      "rnd_agg_15__par" => rnd_agg_15__par::make,
      "rnd_prec_02__par" => rnd_prec_02__par::make,
      "rnd_prec_03__topar" => rnd_prec_03__topar::make,
      "rnd_prec_05__pari" => rnd_prec_05__pari::make,
      "rnd_prec_07__ser" => rnd_prec_07__ser::make,
      "rnd_prec_08__to" => rnd_prec_08__to::make,
      "rnd_prea_03__ser" => rnd_prea_03__ser::make,
      "rnd_prea_05__pari" => rnd_prea_05__pari::make,
      "rnd_prea_08__par" => rnd_prea_08__par::make,
      _ => panic!("no such program variant in this shard: {}", name),
   }
}

fn main() {
   quiet_panics();
   let mut out = Out::open();
   let cases = read_cases();
   let mut i = 0;
   while i < cases.len() {
      let case = &cases[i];
      let m = format!("{}__{}", case["prog"].as_str().unwrap(), case["var"].as_str().unwrap());
      if let Some(g) = case["group"].as_i64() {
         // cases of one group run simultaneously
         let mut grp = vec![];
         while i < cases.len() && cases[i]["group"].as_i64() == Some(g) {
            let m = format!("{}__{}", cases[i]["prog"].as_str().unwrap(), cases[i]["var"].as_str().unwrap());
            grp.push((cases[i].clone(), lookup(&m)));
            i += 1;
         }
         drive_group(&grp, &mut out);
      } else {
         drive(case, &mut out, lookup(&m));
         i += 1;
      }
   }
   out.flush();
}
