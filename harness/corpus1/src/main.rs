#![allow(unused_imports, unused_variables, unused_mut, dead_code, non_snake_case, unused_parens, clippy::all)]
use ascent::lattice::bounded_set::BoundedSet;
use ascent::lattice::constant_propagation::ConstPropagation;
use ascent::lattice::set::Set;
use ascent::lattice::Product;
use ascent::{Dual, Lattice};
use vh_lite::{rows_json, Driven, Value};

use vh_lite::{read_cases, drive, drive_group, quiet_panics, Out};

mod tc_right__par;
mod tc_left__topar;
mod tc_left__init;
mod tc_left__u64;
mod tc_nonlin__perm2;
mod mutual__pari;
mod mutual__src2;
mod mutual__permpar;
mod scc_chain__topar;
mod diamond__ser;
mod repeated__pari;
mod three_dyn__ser;
mod three_dyn__permpar;
mod conds__par;
mod conds__redecl;
mod expr_args__ser;
mod multi_head__ser;
mod multi_head__permpar;
mod facts__src1;
mod facts__ren;
mod opt_cols__run;
mod opt_cols__runpar;
mod same_gen__to;
mod same_gen__strpar;
mod two_inputs__topar;
mod two_inputs__init;
mod two_inputs__u64;
mod ternary__perm1;
mod bound_mix__par;
mod bound_mix__strpar;
mod join_chain__str;
mod reach__pari;
mod self_join3__pari;
mod lag_right__ren;
mod lag_left__to;
mod lag_mid__par;
mod lag_mid__strpar;
mod sp_dual__pari;
mod sp_dual__src2;
mod sp_dual__permpar;
mod longest_capped__pari;
mod set_reach__run;
mod set_reach__runpar;
mod cp__par;
mod lex_lat__par;
mod lat_multi_improve__ser;
mod count_paths__ser;
mod count_paths__src0;
mod neg_basic__par;
mod neg_basic__src1;
mod neg_basic__ren;
mod agg_depth__par;
mod agg_lattice__topar;
mod neg_rec_after__exppar;
mod agg_empty__topar;
mod agg_const_args__pari;
mod disj__run;
mod disj__runpar;
mod disj_nested__ser;
mod pat_args__exp;
mod multi_head_disj__par;
mod neg_in_disj__exppar;
mod mac_basic__gen;
mod mac_basic__exp;
mod mac_nested__par;
mod mac_gensym_disj__exppar;
mod rnd_core_01__pari;
mod rnd_core_04__par;
mod rnd_core_07__ser;
mod rnd_core_09__pari;
mod rnd_core_12__par;
mod rnd_core_15__ser;
mod rnd_core_17__pari;
mod rnd_core_20__par;
mod rnd_core_23__ser;
mod rnd_core_25__pari;
mod rnd_core_28__par;
mod rnd_agg_01__ser;
mod rnd_agg_03__pari;
mod rnd_agg_06__par;
mod rnd_agg_09__ser;
mod rnd_agg_11__pari;
mod rnd_agg_14__par;

fn lookup(name: &str) -> fn() -> Box<dyn Driven> {
   match name {
      "tc_right__par" => tc_right__par::make,
      "tc_left__topar" => tc_left__topar::make,
      "tc_left__init" => tc_left__init::make,
      "tc_left__u64" => tc_left__u64::make,
      "tc_nonlin__perm2" => tc_nonlin__perm2::make,
      "mutual__pari" => mutual__pari::make,
      "mutual__src2" => mutual__src2::make,
      "mutual__permpar" => mutual__permpar::make,
      "scc_chain__topar" => scc_chain__topar::make,
      "diamond__ser" => diamond__ser::make,
      "repeated__pari" => repeated__pari::make,
      "three_dyn__ser" => three_dyn__ser::make,
      "three_dyn__permpar" => three_dyn__permpar::make,
      "conds__par" => conds__par::make,
      "conds__redecl" => conds__redecl::make,
      "expr_args__ser" => expr_args__ser::make,
      "multi_head__ser" => multi_head__ser::make,
      "multi_head__permpar" => multi_head__permpar::make,
      "facts__src1" => facts__src1::make,
      "facts__ren" => facts__ren::make,
      "opt_cols__run" => opt_cols__run::make,
      "opt_cols__runpar" => opt_cols__runpar::make,
      "same_gen__to" => same_gen__to::make,
      "same_gen__strpar" => same_gen__strpar::make,
      "two_inputs__topar" => two_inputs__topar::make,
      "two_inputs__init" => two_inputs__init::make,
      "two_inputs__u64" => two_inputs__u64::make,
      "ternary__perm1" => ternary__perm1::make,
      "bound_mix__par" => bound_mix__par::make,
      "bound_mix__strpar" => bound_mix__strpar::make,
      "join_chain__str" => join_chain__str::make,
      "reach__pari" => reach__pari::make,
      "self_join3__pari" => self_join3__pari::make,
      "lag_right__ren" => lag_right__ren::make,
      "lag_left__to" => lag_left__to::make,
      "lag_mid__par" => lag_mid__par::make,
      "lag_mid__strpar" => lag_mid__strpar::make,
      "sp_dual__pari" => sp_dual__pari::make,
      "sp_dual__src2" => sp_dual__src2::make,
      "sp_dual__permpar" => sp_dual__permpar::make,
      "longest_capped__pari" => longest_capped__pari::make,
      "set_reach__run" => set_reach__run::make,
      "set_reach__runpar" => set_reach__runpar::make,
      "cp__par" => cp__par::make,
      "lex_lat__par" => lex_lat__par::make,
      "lat_multi_improve__ser" => lat_multi_improve__ser::make,
      "count_paths__ser" => count_paths__ser::make,
      "count_paths__src0" => count_paths__src0::make,
      "neg_basic__par" => neg_basic__par::make,
      "neg_basic__src1" => neg_basic__src1::make,
      "neg_basic__ren" => neg_basic__ren::make,
      "agg_depth__par" => agg_depth__par::make,
      "agg_lattice__topar" => agg_lattice__topar::make,
      "neg_rec_after__exppar" => neg_rec_after__exppar::make,
      "agg_empty__topar" => agg_empty__topar::make,
      "agg_const_args__pari" => agg_const_args__pari::make,
      "disj__run" => disj__run::make,
      "disj__runpar" => disj__runpar::make,
      "disj_nested__ser" => disj_nested__ser::make,
      "pat_args__exp" => pat_args__exp::make,
      "multi_head_disj__par" => multi_head_disj__par::make,
      "neg_in_disj__exppar" => neg_in_disj__exppar::make,
      "mac_basic__gen" => mac_basic__gen::make,
      "mac_basic__exp" => mac_basic__exp::make,
      "mac_nested__par" => mac_nested__par::make,
      "mac_gensym_disj__exppar" => mac_gensym_disj__exppar::make,
      "rnd_core_01__pari" => rnd_core_01__pari::make,
      "rnd_core_04__par" => rnd_core_04__par::make,
      "rnd_core_07__ser" => rnd_core_07__ser::make,
      "rnd_core_09__pari" => rnd_core_09__pari::make,
      "rnd_core_12__par" => rnd_core_12__par::make,
      "rnd_core_15__ser" => rnd_core_15__ser::make,
      "rnd_core_17__pari" => rnd_core_17__pari::make,
      "rnd_core_20__par" => rnd_core_20__par::make,
      "rnd_core_23__ser" => rnd_core_23__ser::make,
      "rnd_core_25__pari" => rnd_core_25__pari::make,
      "rnd_core_28__par" => rnd_core_28__par::make,
      "rnd_agg_01__ser" => rnd_agg_01__ser::make,
      "rnd_agg_03__pari" => rnd_agg_03__pari::make,
      "rnd_agg_06__par" => rnd_agg_06__par::make,
      "rnd_agg_09__ser" => rnd_agg_09__ser::make,
      "rnd_agg_11__pari" => rnd_agg_11__pari::make,
      "rnd_agg_14__par" => rnd_agg_14__par::make,
      _ => panic!("no such program variant in this shard: {}", name),
   }
}

fn main() {
   quiet_panics();
   let mut out = Out::open();
   let cases = read_cases();
   let mut i = 0;
   while i < cases.len() {
      let case = &cases[i];
      let m = format!("{}__{}", case["prog"].as_str().unwrap(), case["var"].as_str().unwrap());
      if let Some(g) = case["group"].as_i64() {
         // cases of one group run simultaneously
         let mut grp = vec![];
         while i < cases.len() && cases[i]["group"].as_i64() == Some(g) {
            let m = format!("{}__{}", cases[i]["prog"].as_str().unwrap(), cases[i]["var"].as_str().unwrap());
            grp.push((cases[i].clone(), lookup(&m)));
            i += 1;
         }
         drive_group(&grp, &mut out);
      } else {
         drive(case, &mut out, lookup(&m));
         i += 1;
      }
   }
   out.flush();
}
