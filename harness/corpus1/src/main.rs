#![allow(unused_imports, unused_variables, unused_mut, dead_code, non_snake_case, unused_parens, clippy::all)]
use ascent::lattice::bounded_set::BoundedSet;
use ascent::lattice::constant_propagation::ConstPropagation;
use ascent::lattice::set::Set;
use ascent::lattice::Product;
use ascent::{Dual, Lattice};
use vh_lite::{rows_json, Driven, Value};

use vh_lite::{read_cases, drive, drive_group, quiet_panics, Out};

mod tc_right__par;
mod tc_left__topar;
mod tc_left__srcred;
mod tc_left__permpar;
mod tc_nonlin__topar;
mod mutual__ser;
mod mutual__src0;
mod mutual__srcpar;
mod scc_chain__ser;
mod scc_chain__permpar;
mod consts__par;
mod repeated__permpar;
mod three_dyn__topar;
mod four_dyn__ser;
mod conds__gen;
mod conds__runpar;
mod expr_args__pari;
mod multi_head__pari;
mod facts__par;
mod facts__srcto;
mod facts__ren;
mod opt_cols__run;
mod opt_cols__redecl;
mod same_gen__par;
mod same_gen__str;
mod not_reorderable__perm1;
mod pre_join_rec__topar;
mod two_inputs__to;
mod two_inputs__srcto;
mod two_inputs__ren;
mod ternary__ser;
mod ternary__u64;
mod bound_mix__permpar;
mod join_chain__perm2;
mod cond_simple_join__pari;
mod zero_arity__pari;
mod lag_right__topar;
mod lag_left__ser;
mod lag_three__to;
mod lag_mid__permpar;
mod lag_late_delta__topar;
mod sp_dual__ser;
mod sp_dual__src0;
mod sp_dual__srcpar;
mod sp_weighted__to;
mod set_reach__par;
mod set_reach__src1;
mod bset__ser;
mod cp__to;
mod lex_lat__ser;
mod lat_two_keys__pari;
mod lat_pre_join__pari;
mod lat_val_bound__pari;
mod lat_input__gen;
mod lat_input__runpar;
mod count_paths__mrt;
mod count_paths__init;
mod neg_basic__run;
mod neg_basic__redecl;
mod neg_basic__exp;
mod agg_depth__to;
mod agg_user__par;
mod agg_bound_mix__par;
mod agg_empty_rel__par;
mod agg_const_args__exppar;
mod disj__topar;
mod disj__srcred;
mod disj__permpar;
mod pat_args__ser;
mod rep_expr__exp;
mod neg_in_disj__par;
mod mac_basic__topar;
mod mac_basic__srcred;
mod mac_capture__par;
mod mac_nested__exppar;
mod mac_local_names__pari;
mod mac_disj__ser;
mod stress_set__ser;
mod rnd_core_01__pari;
mod rnd_core_04__par;
mod rnd_core_07__ser;
mod rnd_core_09__pari;
mod rnd_core_12__par;
mod rnd_core_15__ser;
mod rnd_core_17__pari;
mod rnd_core_20__par;
mod rnd_core_23__ser;
mod rnd_core_25__pari;
mod rnd_core_28__par;
mod rnd_agg_01__ser;
mod rnd_agg_03__pari;
mod rnd_agg_06__par;
mod rnd_agg_09__ser;
mod rnd_agg_11__pari;
mod rnd_agg_14__par;
mod rnd_prec_01__to;
mod rnd_prec_03__par;
mod rnd_prec_04__topar;
mod rnd_prec_06__pari;
mod rnd_prec_08__ser;
mod rnd_prea_02__ser;
mod rnd_prea_04__pari;
mod rnd_prea_07__par;

fn lookup(name: &str) -> fn() -> Box<dyn Driven> {
   match name {
      "tc_right__par" => tc_right__par::make,
      "tc_left__topar" => tc_left__topar::make,
      "tc_left__srcred" => tc_left__srcred::make,
      "tc_left__permpar" => tc_left__permpar::make,
      "tc_nonlin__topar" => tc_nonlin__topar::make,
      "mutual__ser" => mutual__ser::make,
      "mutual__src0" => mutual__src0::make,
      "mutual__srcpar" => mutual__srcpar::make,
      "scc_chain__ser" => scc_chain__ser::make,
      "scc_chain__permpar" => scc_chain__permpar::make,
      "consts__par" => consts__par::make,
      "repeated__permpar" => repeated__permpar::make,
      "three_dyn__topar" => three_dyn__topar::make,
      "four_dyn__ser" => four_dyn__ser::make,
      "conds__gen" => conds__gen::make,
      "conds__runpar" => conds__runpar::make,
      "expr_args__pari" => expr_args__pari::make,
      "multi_head__pari" => multi_head__pari::make,
      "facts__par" => facts__par::make,
      "facts__srcto" => facts__srcto::make,
      "facts__ren" => facts__ren::make,
      "opt_cols__run" => opt_cols__run::make,
      "opt_cols__redecl" => opt_cols__redecl::make,
      "same_gen__par" => same_gen__par::make,
      "same_gen__str" => same_gen__str::make,
      "not_reorderable__perm1" => not_reorderable__perm1::make,
      "pre_join_rec__topar" => pre_join_rec__topar::make,
      "two_inputs__to" => two_inputs__to::make,
      "two_inputs__srcto" => two_inputs__srcto::make,
      "two_inputs__ren" => two_inputs__ren::make,
      "ternary__ser" => ternary__ser::make,
      "ternary__u64" => ternary__u64::make,
      "bound_mix__permpar" => bound_mix__permpar::make,
      "join_chain__perm2" => join_chain__perm2::make,
      "cond_simple_join__pari" => cond_simple_join__pari::make,
      "zero_arity__pari" => zero_arity__pari::make,
      "lag_right__topar" => lag_right__topar::make,
      "lag_left__ser" => lag_left__ser::make,
      "lag_three__to" => lag_three__to::make,
      "lag_mid__permpar" => lag_mid__permpar::make,
      "lag_late_delta__topar" => lag_late_delta__topar::make,
      "sp_dual__ser" => sp_dual__ser::make,
      "sp_dual__src0" => sp_dual__src0::make,
      "sp_dual__srcpar" => sp_dual__srcpar::make,
      "sp_weighted__to" => sp_weighted__to::make,
      "set_reach__par" => set_reach__par::make,
      "set_reach__src1" => set_reach__src1::make,
      "bset__ser" => bset__ser::make,
      "cp__to" => cp__to::make,
      "lex_lat__ser" => lex_lat__ser::make,
      "lat_two_keys__pari" => lat_two_keys__pari::make,
      "lat_pre_join__pari" => lat_pre_join__pari::make,
      "lat_val_bound__pari" => lat_val_bound__pari::make,
      "lat_input__gen" => lat_input__gen::make,
      "lat_input__runpar" => lat_input__runpar::make,
      "count_paths__mrt" => count_paths__mrt::make,
      "count_paths__init" => count_paths__init::make,
      "neg_basic__run" => neg_basic__run::make,
      "neg_basic__redecl" => neg_basic__redecl::make,
      "neg_basic__exp" => neg_basic__exp::make,
      "agg_depth__to" => agg_depth__to::make,
      "agg_user__par" => agg_user__par::make,
      "agg_bound_mix__par" => agg_bound_mix__par::make,
      "agg_empty_rel__par" => agg_empty_rel__par::make,
      "agg_const_args__exppar" => agg_const_args__exppar::make,
      "disj__topar" => disj__topar::make,
      "disj__srcred" => disj__srcred::make,
      "disj__permpar" => disj__permpar::make,
      "pat_args__ser" => pat_args__ser::make,
      "rep_expr__exp" => rep_expr__exp::make,
      "neg_in_disj__par" => neg_in_disj__par::make,
      "mac_basic__topar" => mac_basic__topar::make,
      "mac_basic__srcred" => mac_basic__srcred::make,
      "mac_capture__par" => mac_capture__par::make,
      "mac_nested__exppar" => mac_nested__exppar::make,
      "mac_local_names__pari" => mac_local_names__pari::make,
      "mac_disj__ser" => mac_disj__ser::make,
      "stress_set__ser" => stress_set__ser::make,
      "rnd_core_01__pari" => rnd_core_01__pari::make,
      "rnd_core_04__par" => rnd_core_04__par::make,
      "rnd_core_07__ser" => rnd_core_07__ser::make,
      "rnd_core_09__pari" => rnd_core_09__pari::make,
      "rnd_core_12__par" => rnd_core_12__par::make,
      "rnd_core_15__ser" => rnd_core_15__ser::make,
      "rnd_core_17__pari" => rnd_core_17__pari::make,
      "rnd_core_20__par" => rnd_core_20__par::make,
      "rnd_core_23__ser" => rnd_core_23__ser::make,
      "rnd_core_25__pari" => rnd_core_25__pari::make,
      "rnd_core_28__par" => rnd_core_28__par::make,
      "rnd_agg_01__ser" => rnd_agg_01__ser::make,
      "rnd_agg_03__pari" => rnd_agg_03__pari::make,
      "rnd_agg_06__par" => rnd_agg_06__par::make,
      "rnd_agg_09__ser" => rnd_agg_09__ser::make,
      "rnd_agg_11__pari" => rnd_agg_11__pari::make,
      "rnd_agg_14__par" => rnd_agg_14__par::make,
      "rnd_prec_01__to" => rnd_prec_01__to::make,
      "rnd_prec_03__par" => rnd_prec_03__par::make,
      "rnd_prec_04__topar" => rnd_prec_04__topar::make,
      "rnd_prec_06__pari" => rnd_prec_06__pari::make,
      "rnd_prec_08__ser" => rnd_prec_08__ser::make,
      "rnd_prea_02__ser" => rnd_prea_02__ser::make,
      "rnd_prea_04__pari" => rnd_prea_04__pari::make,
      "rnd_prea_07__par" => rnd_prea_07__par::make,
      _ => panic!("no such program variant in this shard: {}", name),
   }
}

fn main() {
   quiet_panics();
   let mut out = Out::open();
   let cases = read_cases();
   let mut i = 0;
   while i < cases.len() {
      let case = &cases[i];
      let m = format!("{}__{}", case["prog"].as_str().unwrap(), case["var"].as_str().unwrap());
      if let Some(g) = case["group"].as_i64() {
         // cases of one group run simultaneously
         let mut grp = vec![];
         while i < cases.len() && cases[i]["group"].as_i64() == Some(g) {
            let m = format!("{}__{}", cases[i]["prog"].as_str().unwrap(), cases[i]["var"].as_str().unwrap());
            grp.push((cases[i].clone(), lookup(&m)));
            i += 1;
         }
         drive_group(&grp, &mut out);
      } else {
         drive(case, &mut out, lookup(&m));
         i += 1;
      }
   }
   out.flush();
}
