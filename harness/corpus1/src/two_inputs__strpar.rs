#![allow(unused_imports, unused_variables, unused_mut, dead_code, non_snake_case, unused_parens, clippy::all)]
use ascent::lattice::bounded_set::BoundedSet;
use ascent::lattice::constant_propagation::ConstPropagation;
use ascent::lattice::set::Set;
use ascent::lattice::Product;
use ascent::{Dual, Lattice};
use vh_lite::{rows_json, Driven, Value};
ascent::ascent_par! {
   pub struct Prog;
   relation e(String, String);
   relation f(String, String);
   relation j(String, String);
   relation k(String);
   j(x, z) <-- e(x, y), f(y, z);
   j(x, z) <-- j(x, y), f(y, z);
   k(x) <-- j(x, x);
}

pub struct D(Prog);
impl Driven for D {
   fn push(&mut self, rel: &str, row: &Value) {
      match rel {
         "e" => { self.0.e.push((format!("s{}", row[0].as_i64().unwrap()), format!("s{}", row[1].as_i64().unwrap()),)); },
         "f" => { self.0.f.push((format!("s{}", row[0].as_i64().unwrap()), format!("s{}", row[1].as_i64().unwrap()),)); },
         "j" => { self.0.j.push((format!("s{}", row[0].as_i64().unwrap()), format!("s{}", row[1].as_i64().unwrap()),)); },
         "k" => { self.0.k.push((format!("s{}", row[0].as_i64().unwrap()),)); },
         _ => panic!("verif harness: unknown relation {}", rel),
      }
   }
   fn clear(&mut self, rel: &str) {
      match rel {
         "e" => { self.0.e = Default::default(); },
         "f" => { self.0.f = Default::default(); },
         "j" => { self.0.j = Default::default(); },
         "k" => { self.0.k = Default::default(); },
         _ => panic!("verif harness: unknown relation {}", rel),
      }
   }
   fn run(&mut self) { self.0.run(); }
   fn dump(&self) -> Value {
      let mut m: Vec<(String, Value)> = vec![];
      m.push(("e".to_string(), rows_json(self.0.e.iter())));
      m.push(("f".to_string(), rows_json(self.0.f.iter())));
      m.push(("j".to_string(), rows_json(self.0.j.iter())));
      m.push(("k".to_string(), rows_json(self.0.k.iter())));
      Value::Obj(m)
   }
   fn summary(&self) -> String { Prog::summary().to_string() }
}
pub fn make() -> Box<dyn Driven> { Box::new(D(Prog::default())) }
