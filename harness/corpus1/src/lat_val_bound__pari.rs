#![allow(unused_imports, unused_variables, unused_mut, dead_code, non_snake_case, unused_parens, clippy::all)]
use ascent::lattice::bounded_set::BoundedSet;
use ascent::lattice::constant_propagation::ConstPropagation;
use ascent::lattice::set::Set;
use ascent::lattice::Product;
use ascent::{Dual, Lattice};
use vh_lite::{rows_json, Driven, Value};
ascent::ascent_par! {
   #![inter_rule_parallelism]
   pub struct Prog;
   relation e(i32, i32);
   lattice d(i32, Dual<i32>);
   relation at1(i32);
   relation cnt2(i32);
   relation nk(i32, i32);
   relation pairs(i32, i32);
   d(0, Dual(0));
   d(y, Dual((((*l)).0 + 1))) <-- d(x, l), e(x, y);
   d(y, Dual((((*l)).0 + 3))) <-- d(x, l), e(y, x);
   at1(x) <-- d(x, Dual(1));
   cnt2((n as i32)) <-- agg n = ascent::aggregators::count() in d(_, Dual(2));
   nk(x, v) <-- e(x, _), for v in (0)..(5), !d(x, Dual(v));
   pairs(x, y) <-- d(x, l), d(y, l), if ((*x) < (*y));
}

pub struct D(Prog);
impl Driven for D {
   fn push(&mut self, rel: &str, row: &Value) {
      match rel {
         "e" => { self.0.e.push((row[0].as_i64().unwrap() as i32, row[1].as_i64().unwrap() as i32,)); },
         "d" => { self.0.d.push(std::sync::RwLock::new((row[0].as_i64().unwrap() as i32, Dual(row[1].as_i64().unwrap() as i32),))); },
         "at1" => { self.0.at1.push((row[0].as_i64().unwrap() as i32,)); },
         "cnt2" => { self.0.cnt2.push((row[0].as_i64().unwrap() as i32,)); },
         "nk" => { self.0.nk.push((row[0].as_i64().unwrap() as i32, row[1].as_i64().unwrap() as i32,)); },
         "pairs" => { self.0.pairs.push((row[0].as_i64().unwrap() as i32, row[1].as_i64().unwrap() as i32,)); },
         _ => panic!("verif harness: unknown relation {}", rel),
      }
   }
   fn clear(&mut self, rel: &str) {
      match rel {
         "e" => { self.0.e = Default::default(); },
         "d" => { self.0.d = Default::default(); },
         "at1" => { self.0.at1 = Default::default(); },
         "cnt2" => { self.0.cnt2 = Default::default(); },
         "nk" => { self.0.nk = Default::default(); },
         "pairs" => { self.0.pairs = Default::default(); },
         _ => panic!("verif harness: unknown relation {}", rel),
      }
   }
   fn run(&mut self) { self.0.run(); }
   fn dump(&self) -> Value {
      let mut m: Vec<(String, Value)> = vec![];
      m.push(("e".to_string(), rows_json(self.0.e.iter())));
      let __v: Vec<(i32, Dual<i32>,)> = self.0.d.iter().map(|r| r.read().unwrap().clone()).collect();
      m.push(("d".to_string(), rows_json(__v.iter())));
      m.push(("at1".to_string(), rows_json(self.0.at1.iter())));
      m.push(("cnt2".to_string(), rows_json(self.0.cnt2.iter())));
      m.push(("nk".to_string(), rows_json(self.0.nk.iter())));
      m.push(("pairs".to_string(), rows_json(self.0.pairs.iter())));
      Value::Obj(m)
   }
   fn summary(&self) -> String { Prog::summary().to_string() }
}
pub fn make() -> Box<dyn Driven> { Box::new(D(Prog::default())) }
