#![allow(unused_imports, unused_variables, unused_mut, dead_code, non_snake_case, unused_parens, clippy::all)]
use ascent::lattice::bounded_set::BoundedSet;
use ascent::lattice::constant_propagation::ConstPropagation;
use ascent::lattice::set::Set;
use ascent::lattice::Product;
use ascent::{Dual, Lattice};
use vh_lite::{rows_json, Driven, Value};
ascent::ascent_source! {
   lat_input__srcpar_src:
   best(y, Dual((((*l)).0 + 1))) <-- best(x, l), e(x, y);
}

ascent::ascent_par! {
   pub struct Prog;
   relation e(i32, i32);
   lattice best(i32, Dual<i32>);
   relation reached(i32);
   relation close(i32);
   include_source!(lat_input__srcpar_src);
   reached(x) <-- best(x, _);
   close(x) <-- best(x, l), if (((*l)).0 <= 1);
}

pub struct D(Prog);
impl Driven for D {
   fn push(&mut self, rel: &str, row: &Value) {
      match rel {
         "e" => { self.0.e.push((row[0].as_i64().unwrap() as i32, row[1].as_i64().unwrap() as i32,)); },
         "best" => { self.0.best.push(std::sync::RwLock::new((row[0].as_i64().unwrap() as i32, Dual(row[1].as_i64().unwrap() as i32),))); },
         "reached" => { self.0.reached.push((row[0].as_i64().unwrap() as i32,)); },
         "close" => { self.0.close.push((row[0].as_i64().unwrap() as i32,)); },
         _ => panic!("verif harness: unknown relation {}", rel),
      }
   }
   fn clear(&mut self, rel: &str) {
      match rel {
         "e" => { self.0.e = Default::default(); },
         "best" => { self.0.best = Default::default(); },
         "reached" => { self.0.reached = Default::default(); },
         "close" => { self.0.close = Default::default(); },
         _ => panic!("verif harness: unknown relation {}", rel),
      }
   }
   fn run(&mut self) { self.0.run(); }
   fn dump(&self) -> Value {
      let mut m: Vec<(String, Value)> = vec![];
      m.push(("e".to_string(), rows_json(self.0.e.iter())));
      let __v: Vec<(i32, Dual<i32>,)> = self.0.best.iter().map(|r| r.read().unwrap().clone()).collect();
      m.push(("best".to_string(), rows_json(__v.iter())));
      m.push(("reached".to_string(), rows_json(self.0.reached.iter())));
      m.push(("close".to_string(), rows_json(self.0.close.iter())));
      Value::Obj(m)
   }
   fn summary(&self) -> String { Prog::summary().to_string() }
}
pub fn make() -> Box<dyn Driven> { Box::new(D(Prog::default())) }
