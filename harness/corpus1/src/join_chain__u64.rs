#![allow(unused_imports, unused_variables, unused_mut, dead_code, non_snake_case, unused_parens, clippy::all)]
use ascent::lattice::bounded_set::BoundedSet;
use ascent::lattice::constant_propagation::ConstPropagation;
use ascent::lattice::set::Set;
use ascent::lattice::Product;
use ascent::{Dual, Lattice};
use vh_lite::{rows_json, Driven, Value};
ascent::ascent! {
   pub struct Prog;
   relation e(u64, u64);
   relation u(u64);
   relation p3(u64, u64);
   relation p4(u64);
   p3(x, w) <-- e(x, y), e(y, z), e(z, w);
   p4(x) <-- u(x), e(x, y), e(y, z), u(z);
}

pub struct D(Prog);
impl Driven for D {
   fn push(&mut self, rel: &str, row: &Value) {
      match rel {
         "e" => { self.0.e.push((((row[0].as_i64().unwrap() + 7) * 1000003) as u64, ((row[1].as_i64().unwrap() + 7) * 1000003) as u64,)); },
         "u" => { self.0.u.push((((row[0].as_i64().unwrap() + 7) * 1000003) as u64,)); },
         "p3" => { self.0.p3.push((((row[0].as_i64().unwrap() + 7) * 1000003) as u64, ((row[1].as_i64().unwrap() + 7) * 1000003) as u64,)); },
         "p4" => { self.0.p4.push((((row[0].as_i64().unwrap() + 7) * 1000003) as u64,)); },
         _ => panic!("verif harness: unknown relation {}", rel),
      }
   }
   fn clear(&mut self, rel: &str) {
      match rel {
         "e" => { self.0.e = Default::default(); },
         "u" => { self.0.u = Default::default(); },
         "p3" => { self.0.p3 = Default::default(); },
         "p4" => { self.0.p4 = Default::default(); },
         _ => panic!("verif harness: unknown relation {}", rel),
      }
   }
   fn run(&mut self) { self.0.run(); }
   fn dump(&self) -> Value {
      let mut m: Vec<(String, Value)> = vec![];
      m.push(("e".to_string(), rows_json(self.0.e.iter())));
      m.push(("u".to_string(), rows_json(self.0.u.iter())));
      m.push(("p3".to_string(), rows_json(self.0.p3.iter())));
      m.push(("p4".to_string(), rows_json(self.0.p4.iter())));
      Value::Obj(m)
   }
   fn summary(&self) -> String { Prog::summary().to_string() }
}
pub fn make() -> Box<dyn Driven> { Box::new(D(Prog::default())) }
