#![allow(unused_imports, unused_variables, unused_mut, dead_code, non_snake_case, unused_parens, clippy::all)]
use ascent::lattice::bounded_set::BoundedSet;
use ascent::lattice::constant_propagation::ConstPropagation;
use ascent::lattice::set::Set;
use ascent::lattice::Product;
use ascent::{Dual, Lattice};
use vh_lite::{rows_json, Driven, Value};
ascent::ascent_par! {
   #![inter_rule_parallelism]
   pub struct Prog;
   relation t(i32, i32, i32);
   relation u(i32);
   relation r1(i32);
   relation r2(i32, i32);
   relation r3(i32);
   r1(z) <-- u(x), t(x, _, z);
   r2(x, z) <-- u(y), t(x, y, z);
   r3(x) <-- u(z), u(y), t(x, y, z);
   r1(x) <-- r3(x), t(_, x, x);
}

pub struct D(Prog);
impl Driven for D {
   fn push(&mut self, rel: &str, row: &Value) {
      match rel {
         "t" => { self.0.t.push((row[0].as_i64().unwrap() as i32, row[1].as_i64().unwrap() as i32, row[2].as_i64().unwrap() as i32,)); },
         "u" => { self.0.u.push((row[0].as_i64().unwrap() as i32,)); },
         "r1" => { self.0.r1.push((row[0].as_i64().unwrap() as i32,)); },
         "r2" => { self.0.r2.push((row[0].as_i64().unwrap() as i32, row[1].as_i64().unwrap() as i32,)); },
         "r3" => { self.0.r3.push((row[0].as_i64().unwrap() as i32,)); },
         _ => panic!("verif harness: unknown relation {}", rel),
      }
   }
   fn clear(&mut self, rel: &str) {
      match rel {
         "t" => { self.0.t = Default::default(); },
         "u" => { self.0.u = Default::default(); },
         "r1" => { self.0.r1 = Default::default(); },
         "r2" => { self.0.r2 = Default::default(); },
         "r3" => { self.0.r3 = Default::default(); },
         _ => panic!("verif harness: unknown relation {}", rel),
      }
   }
   fn run(&mut self) { self.0.run(); }
   fn dump(&self) -> Value {
      let mut m: Vec<(String, Value)> = vec![];
      m.push(("t".to_string(), rows_json(self.0.t.iter())));
      m.push(("u".to_string(), rows_json(self.0.u.iter())));
      m.push(("r1".to_string(), rows_json(self.0.r1.iter())));
      m.push(("r2".to_string(), rows_json(self.0.r2.iter())));
      m.push(("r3".to_string(), rows_json(self.0.r3.iter())));
      Value::Obj(m)
   }
   fn summary(&self) -> String { Prog::summary().to_string() }
}
pub fn make() -> Box<dyn Driven> { Box::new(D(Prog::default())) }
