#![allow(unused_imports, unused_variables, unused_mut, dead_code, non_snake_case, unused_parens, clippy::all)]
use ascent::lattice::bounded_set::BoundedSet;
use ascent::lattice::constant_propagation::ConstPropagation;
use ascent::lattice::set::Set;
use ascent::lattice::Product;
use ascent::{Dual, Lattice};
use vh_lite::{rows_json, Driven, Value};
ascent::ascent_par! {
   #![inter_rule_parallelism]
   pub struct Prog;
   relation u(i32);
   relation w(i32);
   relation c(i32, i32);
   relation d(i32, i32, i32);
   c(x, y) <-- u(x), w(y);
   d(x, y, z) <-- u(x), w(y), u(z), if ((*x) != (*z));
}

pub struct D(Prog);
impl Driven for D {
   fn push(&mut self, rel: &str, row: &Value) {
      match rel {
         "u" => { self.0.u.push((row[0].as_i64().unwrap() as i32,)); },
         "w" => { self.0.w.push((row[0].as_i64().unwrap() as i32,)); },
         "c" => { self.0.c.push((row[0].as_i64().unwrap() as i32, row[1].as_i64().unwrap() as i32,)); },
         "d" => { self.0.d.push((row[0].as_i64().unwrap() as i32, row[1].as_i64().unwrap() as i32, row[2].as_i64().unwrap() as i32,)); },
         _ => panic!("verif harness: unknown relation {}", rel),
      }
   }
   fn clear(&mut self, rel: &str) {
      match rel {
         "u" => { self.0.u = Default::default(); },
         "w" => { self.0.w = Default::default(); },
         "c" => { self.0.c = Default::default(); },
         "d" => { self.0.d = Default::default(); },
         _ => panic!("verif harness: unknown relation {}", rel),
      }
   }
   fn run(&mut self) { self.0.run(); }
   fn dump(&self) -> Value {
      let mut m: Vec<(String, Value)> = vec![];
      m.push(("u".to_string(), rows_json(self.0.u.iter())));
      m.push(("w".to_string(), rows_json(self.0.w.iter())));
      m.push(("c".to_string(), rows_json(self.0.c.iter())));
      m.push(("d".to_string(), rows_json(self.0.d.iter())));
      Value::Obj(m)
   }
   fn summary(&self) -> String { Prog::summary().to_string() }
}
pub fn make() -> Box<dyn Driven> { Box::new(D(Prog::default())) }
