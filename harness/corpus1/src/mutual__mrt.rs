#![allow(unused_imports, unused_variables, unused_mut, dead_code, non_snake_case, unused_parens, clippy::all)]
use ascent::lattice::bounded_set::BoundedSet;
use ascent::lattice::constant_propagation::ConstPropagation;
use ascent::lattice::set::Set;
use ascent::lattice::Product;
use ascent::{Dual, Lattice};
use vh_lite::{rows_json, Driven, Value};
ascent::ascent! {
   #![measure_rule_times]
   pub struct Prog;
   relation e(i32, i32);
   relation a(i32, i32);
   relation b(i32, i32);
   a(x, y) <-- e(x, y);
   b(x, z) <-- a(x, y), e(y, z);
   a(x, z) <-- b(x, y), e(y, z);
}

pub struct D(Prog);
impl Driven for D {
   fn push(&mut self, rel: &str, row: &Value) {
      match rel {
         "e" => { self.0.e.push((row[0].as_i64().unwrap() as i32, row[1].as_i64().unwrap() as i32,)); },
         "a" => { self.0.a.push((row[0].as_i64().unwrap() as i32, row[1].as_i64().unwrap() as i32,)); },
         "b" => { self.0.b.push((row[0].as_i64().unwrap() as i32, row[1].as_i64().unwrap() as i32,)); },
         _ => panic!("verif harness: unknown relation {}", rel),
      }
   }
   fn clear(&mut self, rel: &str) {
      match rel {
         "e" => { self.0.e = Default::default(); },
         "a" => { self.0.a = Default::default(); },
         "b" => { self.0.b = Default::default(); },
         _ => panic!("verif harness: unknown relation {}", rel),
      }
   }
   fn run(&mut self) { self.0.run(); }
   fn dump(&self) -> Value {
      let mut m: Vec<(String, Value)> = vec![];
      m.push(("e".to_string(), rows_json(self.0.e.iter())));
      m.push(("a".to_string(), rows_json(self.0.a.iter())));
      m.push(("b".to_string(), rows_json(self.0.b.iter())));
      Value::Obj(m)
   }
   fn summary(&self) -> String { Prog::summary().to_string() }
}
pub fn make() -> Box<dyn Driven> { Box::new(D(Prog::default())) }
