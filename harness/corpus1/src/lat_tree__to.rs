#![allow(unused_imports, unused_variables, unused_mut, dead_code, non_snake_case, unused_parens, clippy::all)]
use ascent::lattice::bounded_set::BoundedSet;
use ascent::lattice::constant_propagation::ConstPropagation;
use ascent::lattice::set::Set;
use ascent::lattice::Product;
use ascent::{Dual, Lattice};
use vh_lite::{rows_json, Driven, Value};
ascent::ascent! {
   #![generate_run_timeout]
   pub struct Prog;
   relation e(i32, i32);
   relation src(i32);
   relation q(i32);
   lattice dist(i32, i32, Dual<i32>);
   relation out(i32, i32, i32);
   relation okn(i32);
   okn(x) <-- for x in (0)..(3);
   dist(s, s, Dual(0)) <-- src(s);
   dist(s, z, Dual((((*d)).0 + 1))) <-- e(y, z), dist(s, y, d), okn(z), if (((*d)).0 < 4);
   out(s, n, k) <-- q(n), dist(s, n, d), let k = ((*d)).0;
}

pub struct D(Prog);
impl Driven for D {
   fn push(&mut self, rel: &str, row: &Value) {
      match rel {
         "e" => { self.0.e.push((row[0].as_i64().unwrap() as i32, row[1].as_i64().unwrap() as i32,)); },
         "src" => { self.0.src.push((row[0].as_i64().unwrap() as i32,)); },
         "q" => { self.0.q.push((row[0].as_i64().unwrap() as i32,)); },
         "dist" => { self.0.dist.push((row[0].as_i64().unwrap() as i32, row[1].as_i64().unwrap() as i32, Dual(row[2].as_i64().unwrap() as i32),)); },
         "out" => { self.0.out.push((row[0].as_i64().unwrap() as i32, row[1].as_i64().unwrap() as i32, row[2].as_i64().unwrap() as i32,)); },
         "okn" => { self.0.okn.push((row[0].as_i64().unwrap() as i32,)); },
         _ => panic!("verif harness: unknown relation {}", rel),
      }
   }
   fn clear(&mut self, rel: &str) {
      match rel {
         "e" => { self.0.e = Default::default(); },
         "src" => { self.0.src = Default::default(); },
         "q" => { self.0.q = Default::default(); },
         "dist" => { self.0.dist = Default::default(); },
         "out" => { self.0.out = Default::default(); },
         "okn" => { self.0.okn = Default::default(); },
         _ => panic!("verif harness: unknown relation {}", rel),
      }
   }
   fn run(&mut self) { self.0.run(); }
   fn run_timeout(&mut self, nanos: u64) -> Option<bool> { Some(self.0.run_timeout(std::time::Duration::from_nanos(nanos))) }
   fn dump(&self) -> Value {
      let mut m: Vec<(String, Value)> = vec![];
      m.push(("e".to_string(), rows_json(self.0.e.iter())));
      m.push(("src".to_string(), rows_json(self.0.src.iter())));
      m.push(("q".to_string(), rows_json(self.0.q.iter())));
      m.push(("dist".to_string(), rows_json(self.0.dist.iter())));
      m.push(("out".to_string(), rows_json(self.0.out.iter())));
      m.push(("okn".to_string(), rows_json(self.0.okn.iter())));
      Value::Obj(m)
   }
   fn summary(&self) -> String { Prog::summary().to_string() }
}
pub fn make() -> Box<dyn Driven> { Box::new(D(Prog::default())) }
