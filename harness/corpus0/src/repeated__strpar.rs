#![allow(unused_imports, unused_variables, unused_mut, dead_code, non_snake_case, unused_parens, clippy::all)]
use ascent::lattice::bounded_set::BoundedSet;
use ascent::lattice::constant_propagation::ConstPropagation;
use ascent::lattice::set::Set;
use ascent::lattice::Product;
use ascent::{Dual, Lattice};
use vh_lite::{rows_json, Driven, Value};
ascent::ascent_par! {
   pub struct Prog;
   relation e(String, String);
   relation lp(String);
   relation sym(String, String);
   relation tri(String, String, String);
   lp(x) <-- e(x, x);
   sym(x, y) <-- e(x, y), e(y, x);
   tri(x, y, z) <-- e(x, y), e(y, z), e(z, x);
}

pub struct D(Prog);
impl Driven for D {
   fn push(&mut self, rel: &str, row: &Value) {
      match rel {
         "e" => { self.0.e.push((format!("s{}", row[0].as_i64().unwrap()), format!("s{}", row[1].as_i64().unwrap()),)); },
         "lp" => { self.0.lp.push((format!("s{}", row[0].as_i64().unwrap()),)); },
         "sym" => { self.0.sym.push((format!("s{}", row[0].as_i64().unwrap()), format!("s{}", row[1].as_i64().unwrap()),)); },
         "tri" => { self.0.tri.push((format!("s{}", row[0].as_i64().unwrap()), format!("s{}", row[1].as_i64().unwrap()), format!("s{}", row[2].as_i64().unwrap()),)); },
         _ => panic!("verif harness: unknown relation {}", rel),
      }
   }
   fn clear(&mut self, rel: &str) {
      match rel {
         "e" => { self.0.e = Default::default(); },
         "lp" => { self.0.lp = Default::default(); },
         "sym" => { self.0.sym = Default::default(); },
         "tri" => { self.0.tri = Default::default(); },
         _ => panic!("verif harness: unknown relation {}", rel),
      }
   }
   fn run(&mut self) { self.0.run(); }
   fn dump(&self) -> Value {
      let mut m: Vec<(String, Value)> = vec![];
      m.push(("e".to_string(), rows_json(self.0.e.iter())));
      m.push(("lp".to_string(), rows_json(self.0.lp.iter())));
      m.push(("sym".to_string(), rows_json(self.0.sym.iter())));
      m.push(("tri".to_string(), rows_json(self.0.tri.iter())));
      Value::Obj(m)
   }
   fn summary(&self) -> String { Prog::summary().to_string() }
}
pub fn make() -> Box<dyn Driven> { Box::new(D(Prog::default())) }
