#![allow(unused_imports, unused_variables, unused_mut, dead_code, non_snake_case, unused_parens, clippy::all)]
use ascent::lattice::bounded_set::BoundedSet;
use ascent::lattice::constant_propagation::ConstPropagation;
use ascent::lattice::set::Set;
use ascent::lattice::Product;
use ascent::{Dual, Lattice};
use vh_lite::{rows_json, Driven, Value};
#[derive(Default)]
pub struct D {
   e: Vec<(i32, i32,)>,
   a: Vec<(i32, i32,)>,
   b: Vec<(i32, i32,)>,
   out: Option<Value>,
}
impl Driven for D {
   fn push(&mut self, rel: &str, row: &Value) {
      match rel {
         "e" => { self.e.push((row[0].as_i64().unwrap() as i32, row[1].as_i64().unwrap() as i32,)); },
         "a" => { self.a.push((row[0].as_i64().unwrap() as i32, row[1].as_i64().unwrap() as i32,)); },
         "b" => { self.b.push((row[0].as_i64().unwrap() as i32, row[1].as_i64().unwrap() as i32,)); },
         _ => panic!("verif harness: unknown relation {}", rel),
      }
   }
   fn run(&mut self) {
      let e_init = self.e.clone();
      let a_init = self.a.clone();
      let b_init = self.b.clone();
      let res = ascent::ascent_run! {
         relation e(i32, i32) = e_init;
         relation a(i32, i32) = a_init;
         relation b(i32, i32) = b_init;
         a(x, y) <-- e(x, y);
         b(x, z) <-- a(x, y), e(y, z);
         a(x, z) <-- b(x, y), e(y, z);
      };
      let mut m: Vec<(String, Value)> = vec![];
      m.push(("e".to_string(), rows_json(res.e.iter())));
      m.push(("a".to_string(), rows_json(res.a.iter())));
      m.push(("b".to_string(), rows_json(res.b.iter())));
      self.out = Some(Value::Obj(m));
   }
   fn dump(&self) -> Value { self.out.clone().unwrap_or(Value::Null) }
}
pub fn make() -> Box<dyn Driven> { Box::new(D::default()) }
