#![allow(unused_imports, unused_variables, unused_mut, dead_code, non_snake_case, unused_parens, clippy::all)]
use ascent::lattice::bounded_set::BoundedSet;
use ascent::lattice::constant_propagation::ConstPropagation;
use ascent::lattice::set::Set;
use ascent::lattice::Product;
use ascent::{Dual, Lattice};
use vh_lite::{rows_json, Driven, Value};
ascent::ascent_par! {
   pub struct Prog;
   relation t(String, String, String);
   relation u(String);
   relation r1(String);
   relation r2(String, String);
   relation r3(String);
   r1(z) <-- u(x), t(x, _, z);
   r2(x, z) <-- u(y), t(x, y, z);
   r3(x) <-- u(z), u(y), t(x, y, z);
   r1(x) <-- r3(x), t(_, x, x);
}

pub struct D(Prog);
impl Driven for D {
   fn push(&mut self, rel: &str, row: &Value) {
      match rel {
         "t" => { self.0.t.push((format!("s{}", row[0].as_i64().unwrap()), format!("s{}", row[1].as_i64().unwrap()), format!("s{}", row[2].as_i64().unwrap()),)); },
         "u" => { self.0.u.push((format!("s{}", row[0].as_i64().unwrap()),)); },
         "r1" => { self.0.r1.push((format!("s{}", row[0].as_i64().unwrap()),)); },
         "r2" => { self.0.r2.push((format!("s{}", row[0].as_i64().unwrap()), format!("s{}", row[1].as_i64().unwrap()),)); },
         "r3" => { self.0.r3.push((format!("s{}", row[0].as_i64().unwrap()),)); },
         _ => panic!("verif harness: unknown relation {}", rel),
      }
   }
   fn clear(&mut self, rel: &str) {
      match rel {
         "t" => { self.0.t = Default::default(); },
         "u" => { self.0.u = Default::default(); },
         "r1" => { self.0.r1 = Default::default(); },
         "r2" => { self.0.r2 = Default::default(); },
         "r3" => { self.0.r3 = Default::default(); },
         _ => panic!("verif harness: unknown relation {}", rel),
      }
   }
   fn run(&mut self) { self.0.run(); }
   fn dump(&self) -> Value {
      let mut m: Vec<(String, Value)> = vec![];
      m.push(("t".to_string(), rows_json(self.0.t.iter())));
      m.push(("u".to_string(), rows_json(self.0.u.iter())));
      m.push(("r1".to_string(), rows_json(self.0.r1.iter())));
      m.push(("r2".to_string(), rows_json(self.0.r2.iter())));
      m.push(("r3".to_string(), rows_json(self.0.r3.iter())));
      Value::Obj(m)
   }
   fn summary(&self) -> String { Prog::summary().to_string() }
}
pub fn make() -> Box<dyn Driven> { Box::new(D(Prog::default())) }
