#![allow(unused_imports, unused_variables, unused_mut, dead_code, non_snake_case, unused_parens, clippy::all)]
use ascent::lattice::bounded_set::BoundedSet;
use ascent::lattice::constant_propagation::ConstPropagation;
use ascent::lattice::set::Set;
use ascent::lattice::Product;
use ascent::{Dual, Lattice};
use vh_lite::{rows_json, Driven, Value};
ascent::ascent! {
   pub struct Prog;
   relation src(i32, i32);
   lattice s(i32, Set<i32>);
   relation both(i32);
   s(k, Set::singleton((*v))) <-- src(k, v);
   both(k) <-- s(k, x), if ((*x).clone()).contains(&(0)), if ((*x).clone()).contains(&(1));
}

pub struct D(Prog);
impl Driven for D {
   fn push(&mut self, rel: &str, row: &Value) {
      match rel {
         "src" => { self.0.src.push((row[0].as_i64().unwrap() as i32, row[1].as_i64().unwrap() as i32,)); },
         "s" => { self.0.s.push((row[0].as_i64().unwrap() as i32, Set(row[1].as_array().unwrap().iter().map(|v| v.as_i64().unwrap() as i32).collect()),)); },
         "both" => { self.0.both.push((row[0].as_i64().unwrap() as i32,)); },
         _ => panic!("verif harness: unknown relation {}", rel),
      }
   }
   fn clear(&mut self, rel: &str) {
      match rel {
         "src" => { self.0.src = Default::default(); },
         "s" => { self.0.s = Default::default(); },
         "both" => { self.0.both = Default::default(); },
         _ => panic!("verif harness: unknown relation {}", rel),
      }
   }
   fn run(&mut self) { self.0.run(); }
   fn dump(&self) -> Value {
      let mut m: Vec<(String, Value)> = vec![];
      m.push(("src".to_string(), rows_json(self.0.src.iter())));
      m.push(("s".to_string(), rows_json(self.0.s.iter())));
      m.push(("both".to_string(), rows_json(self.0.both.iter())));
      Value::Obj(m)
   }
   fn summary(&self) -> String { Prog::summary().to_string() }
}
pub fn make() -> Box<dyn Driven> { Box::new(D(Prog::default())) }
