#![allow(unused_imports, unused_variables, unused_mut, dead_code, non_snake_case, unused_parens, clippy::all)]
use ascent::lattice::bounded_set::BoundedSet;
use ascent::lattice::constant_propagation::ConstPropagation;
use ascent::lattice::set::Set;
use ascent::lattice::Product;
use ascent::{Dual, Lattice};
use vh_lite::{rows_json, Driven, Value};
ascent::ascent_par! {
   #![inter_rule_parallelism]
   pub struct Prog;
   relation w(i32, i32, i32);
   relation mn(i32, i32);
   relation mx(i32, i32);
   relation sm(i32, i32);
   relation tot(i32);
   relation lo(i32);
   mn(x, m) <-- w(x, _, _), agg m = ascent::aggregators::min(c) in w(x, _, c);
   mx(x, m) <-- w(x, _, _), agg m = ascent::aggregators::max(c) in w(x, _, c);
   sm(x, s) <-- w(x, _, _), agg s = ascent::aggregators::sum(c) in w(x, _, c);
   tot(s) <-- agg s = ascent::aggregators::sum(c) in w(_, _, c);
   lo(m) <-- agg m = ascent::aggregators::min(y) in w(_, y, _);
}

pub struct D(Prog);
impl Driven for D {
   fn push(&mut self, rel: &str, row: &Value) {
      match rel {
         "w" => { self.0.w.push((row[0].as_i64().unwrap() as i32, row[1].as_i64().unwrap() as i32, row[2].as_i64().unwrap() as i32,)); },
         "mn" => { self.0.mn.push((row[0].as_i64().unwrap() as i32, row[1].as_i64().unwrap() as i32,)); },
         "mx" => { self.0.mx.push((row[0].as_i64().unwrap() as i32, row[1].as_i64().unwrap() as i32,)); },
         "sm" => { self.0.sm.push((row[0].as_i64().unwrap() as i32, row[1].as_i64().unwrap() as i32,)); },
         "tot" => { self.0.tot.push((row[0].as_i64().unwrap() as i32,)); },
         "lo" => { self.0.lo.push((row[0].as_i64().unwrap() as i32,)); },
         _ => panic!("verif harness: unknown relation {}", rel),
      }
   }
   fn clear(&mut self, rel: &str) {
      match rel {
         "w" => { self.0.w = Default::default(); },
         "mn" => { self.0.mn = Default::default(); },
         "mx" => { self.0.mx = Default::default(); },
         "sm" => { self.0.sm = Default::default(); },
         "tot" => { self.0.tot = Default::default(); },
         "lo" => { self.0.lo = Default::default(); },
         _ => panic!("verif harness: unknown relation {}", rel),
      }
   }
   fn run(&mut self) { self.0.run(); }
   fn dump(&self) -> Value {
      let mut m: Vec<(String, Value)> = vec![];
      m.push(("w".to_string(), rows_json(self.0.w.iter())));
      m.push(("mn".to_string(), rows_json(self.0.mn.iter())));
      m.push(("mx".to_string(), rows_json(self.0.mx.iter())));
      m.push(("sm".to_string(), rows_json(self.0.sm.iter())));
      m.push(("tot".to_string(), rows_json(self.0.tot.iter())));
      m.push(("lo".to_string(), rows_json(self.0.lo.iter())));
      Value::Obj(m)
   }
   fn summary(&self) -> String { Prog::summary().to_string() }
}
pub fn make() -> Box<dyn Driven> { Box::new(D(Prog::default())) }
