#![allow(unused_imports, unused_variables, unused_mut, dead_code, non_snake_case, unused_parens, clippy::all)]
use ascent::lattice::bounded_set::BoundedSet;
use ascent::lattice::constant_propagation::ConstPropagation;
use ascent::lattice::set::Set;
use ascent::lattice::Product;
use ascent::{Dual, Lattice};
use vh_lite::{rows_json, Driven, Value};
ascent::ascent_par! {
   #![inter_rule_parallelism]
   pub struct Prog;
   relation e(i32, i32);
   relation three(i32, i32);
   relation six(i32, i32);
   macro hop3($a: ident, $b: ident) { e($a, m), e(m, m1), e(m1, $b) }
   three(a, b) <-- hop3!(a, b);
   six(a, c) <-- hop3!(a, b), hop3!(b, c);
}

pub struct D(Prog);
impl Driven for D {
   fn push(&mut self, rel: &str, row: &Value) {
      match rel {
         "e" => { self.0.e.push((row[0].as_i64().unwrap() as i32, row[1].as_i64().unwrap() as i32,)); },
         "three" => { self.0.three.push((row[0].as_i64().unwrap() as i32, row[1].as_i64().unwrap() as i32,)); },
         "six" => { self.0.six.push((row[0].as_i64().unwrap() as i32, row[1].as_i64().unwrap() as i32,)); },
         _ => panic!("verif harness: unknown relation {}", rel),
      }
   }
   fn clear(&mut self, rel: &str) {
      match rel {
         "e" => { self.0.e = Default::default(); },
         "three" => { self.0.three = Default::default(); },
         "six" => { self.0.six = Default::default(); },
         _ => panic!("verif harness: unknown relation {}", rel),
      }
   }
   fn run(&mut self) { self.0.run(); }
   fn dump(&self) -> Value {
      let mut m: Vec<(String, Value)> = vec![];
      m.push(("e".to_string(), rows_json(self.0.e.iter())));
      m.push(("three".to_string(), rows_json(self.0.three.iter())));
      m.push(("six".to_string(), rows_json(self.0.six.iter())));
      Value::Obj(m)
   }
   fn summary(&self) -> String { Prog::summary().to_string() }
}
pub fn make() -> Box<dyn Driven> { Box::new(D(Prog::default())) }
