#![allow(unused_imports, unused_variables, unused_mut, dead_code, non_snake_case, unused_parens, clippy::all)]
use ascent::lattice::bounded_set::BoundedSet;
use ascent::lattice::constant_propagation::ConstPropagation;
use ascent::lattice::set::Set;
use ascent::lattice::Product;
use ascent::{Dual, Lattice};
use vh_lite::{rows_json, Driven, Value};
ascent::ascent_par! {
   pub struct Prog;
   relation w(i32, i32, i32);
   lattice best(i32, i32, i32);
   lattice glob(i32);
   relation win(i32, i32);
   best(x, y, c) <-- w(x, y, c);
   best(x, z, std::cmp::min((*a), (*b))) <-- best(x, y, a), best(y, z, b);
   glob(c) <-- best(_, _, c);
   win(x, y) <-- best(x, y, c), glob(g), if ((*c) == (*g));
}

pub struct D(Prog);
impl Driven for D {
   fn push(&mut self, rel: &str, row: &Value) {
      match rel {
         "w" => { self.0.w.push((row[0].as_i64().unwrap() as i32, row[1].as_i64().unwrap() as i32, row[2].as_i64().unwrap() as i32,)); },
         "best" => { self.0.best.push(std::sync::RwLock::new((row[0].as_i64().unwrap() as i32, row[1].as_i64().unwrap() as i32, row[2].as_i64().unwrap() as i32,))); },
         "glob" => { self.0.glob.push(std::sync::RwLock::new((row[0].as_i64().unwrap() as i32,))); },
         "win" => { self.0.win.push((row[0].as_i64().unwrap() as i32, row[1].as_i64().unwrap() as i32,)); },
         _ => panic!("verif harness: unknown relation {}", rel),
      }
   }
   fn clear(&mut self, rel: &str) {
      match rel {
         "w" => { self.0.w = Default::default(); },
         "best" => { self.0.best = Default::default(); },
         "glob" => { self.0.glob = Default::default(); },
         "win" => { self.0.win = Default::default(); },
         _ => panic!("verif harness: unknown relation {}", rel),
      }
   }
   fn run(&mut self) { self.0.run(); }
   fn dump(&self) -> Value {
      let mut m: Vec<(String, Value)> = vec![];
      m.push(("w".to_string(), rows_json(self.0.w.iter())));
      let __v: Vec<(i32, i32, i32,)> = self.0.best.iter().map(|r| r.read().unwrap().clone()).collect();
      m.push(("best".to_string(), rows_json(__v.iter())));
      let __v: Vec<(i32,)> = self.0.glob.iter().map(|r| r.read().unwrap().clone()).collect();
      m.push(("glob".to_string(), rows_json(__v.iter())));
      m.push(("win".to_string(), rows_json(self.0.win.iter())));
      Value::Obj(m)
   }
   fn summary(&self) -> String { Prog::summary().to_string() }
}
pub fn make() -> Box<dyn Driven> { Box::new(D(Prog::default())) }
