#![allow(unused_imports, unused_variables, unused_mut, dead_code, non_snake_case, unused_parens, clippy::all)]
use ascent::lattice::bounded_set::BoundedSet;
use ascent::lattice::constant_propagation::ConstPropagation;
use ascent::lattice::set::Set;
use ascent::lattice::Product;
use ascent::{Dual, Lattice};
use vh_lite::{rows_json, Driven, Value};
#[derive(Default)]
pub struct D {
   e: Vec<(i32, i32,)>,
   f: Vec<(i32, i32,)>,
   n: Vec<(i32,)>,
   r: Vec<(i32, i32,)>,
   out: Option<Value>,
}
impl Driven for D {
   fn push(&mut self, rel: &str, row: &Value) {
      match rel {
         "e" => { self.e.push((row[0].as_i64().unwrap() as i32, row[1].as_i64().unwrap() as i32,)); },
         "f" => { self.f.push((row[0].as_i64().unwrap() as i32, row[1].as_i64().unwrap() as i32,)); },
         "n" => { self.n.push((row[0].as_i64().unwrap() as i32,)); },
         "r" => { self.r.push((row[0].as_i64().unwrap() as i32, row[1].as_i64().unwrap() as i32,)); },
         _ => panic!("verif harness: unknown relation {}", rel),
      }
   }
   fn run(&mut self) {
      let e_init = self.e.clone();
      let f_init = self.f.clone();
      let r_init = self.r.clone();
      let res = ascent::ascent_run! {
         relation e(i32, i32);
         relation f(i32, i32);
         relation n(i32);
         relation r(i32, i32) = r_init;
         e(a0.clone(), a1.clone()) <-- for (a0, a1, ) in e_init.iter();
         f(a0.clone(), a1.clone()) <-- for (a0, a1, ) in f_init.iter();
         n(x) <-- (e(x, _) | e(_, x) | f(x, x));
         r(x, y) <-- (e(x, y) | f(x, y)), (if ((*x) > 0), n(x) | if ((*y) > 0), n(y));
      };
      let mut m: Vec<(String, Value)> = vec![];
      m.push(("e".to_string(), rows_json(res.e.iter())));
      m.push(("f".to_string(), rows_json(res.f.iter())));
      m.push(("n".to_string(), rows_json(res.n.iter())));
      m.push(("r".to_string(), rows_json(res.r.iter())));
      self.out = Some(Value::Obj(m));
   }
   fn dump(&self) -> Value { self.out.clone().unwrap_or(Value::Null) }
}
pub fn make() -> Box<dyn Driven> { Box::new(D::default()) }
