#![allow(unused_imports, unused_variables, unused_mut, dead_code, non_snake_case, unused_parens, clippy::all)]
use ascent::lattice::bounded_set::BoundedSet;
use ascent::lattice::constant_propagation::ConstPropagation;
use ascent::lattice::set::Set;
use ascent::lattice::Product;
use ascent::{Dual, Lattice};
use vh_lite::{rows_json, Driven, Value};
#[derive(Default)]
pub struct D {
   e: Vec<(i32, i32,)>,
   f: Vec<(i32, i32,)>,
   j: Vec<(i32, i32,)>,
   k: Vec<(i32,)>,
   out: Option<Value>,
}
impl Driven for D {
   fn push(&mut self, rel: &str, row: &Value) {
      match rel {
         "e" => { self.e.push((row[0].as_i64().unwrap() as i32, row[1].as_i64().unwrap() as i32,)); },
         "f" => { self.f.push((row[0].as_i64().unwrap() as i32, row[1].as_i64().unwrap() as i32,)); },
         "j" => { self.j.push((row[0].as_i64().unwrap() as i32, row[1].as_i64().unwrap() as i32,)); },
         "k" => { self.k.push((row[0].as_i64().unwrap() as i32,)); },
         _ => panic!("verif harness: unknown relation {}", rel),
      }
   }
   fn run(&mut self) {
      let e_init = self.e.clone();
      let f_init = self.f.clone();
      let k_init = self.k.clone();
      let res = ascent::ascent_run! {
         relation e(i32, i32);
         relation f(i32, i32);
         relation j(i32, i32);
         relation k(i32) = k_init;
         e(a0.clone(), a1.clone()) <-- for (a0, a1, ) in e_init.iter();
         f(a0.clone(), a1.clone()) <-- for (a0, a1, ) in f_init.iter();
         j(x, z) <-- e(x, y), f(y, z);
         j(x, z) <-- j(x, y), f(y, z);
         k(x) <-- j(x, x);
      };
      let mut m: Vec<(String, Value)> = vec![];
      m.push(("e".to_string(), rows_json(res.e.iter())));
      m.push(("f".to_string(), rows_json(res.f.iter())));
      m.push(("j".to_string(), rows_json(res.j.iter())));
      m.push(("k".to_string(), rows_json(res.k.iter())));
      self.out = Some(Value::Obj(m));
   }
   fn dump(&self) -> Value { self.out.clone().unwrap_or(Value::Null) }
}
pub fn make() -> Box<dyn Driven> { Box::new(D::default()) }
