#![allow(unused_imports, unused_variables, unused_mut, dead_code, non_snake_case, unused_parens, clippy::all)]
use ascent::lattice::bounded_set::BoundedSet;
use ascent::lattice::constant_propagation::ConstPropagation;
use ascent::lattice::set::Set;
use ascent::lattice::Product;
use ascent::{Dual, Lattice};
use vh_lite::{rows_json, Driven, Value};
ascent::ascent! {
   pub struct Prog;
   relation e(i32, i32);
   relation f(i32, i32);
   relation u(i32);
   relation r0(i32, i32, i32);
   relation r1(i32);
   relation r2(i32, i32);
   r0(std::cmp::min(((*y) + 1), 4), 2, y) <-- e(y, _);
   r0(v, v, v) <-- for x in (0)..(2), u(v), e(v, x);
   r1(x) <-- f(z, z), r0(x, _, _) if ((*z) < 0);
   r1(x) <-- let z = 2, r1(x), r0(x, x, x);
   r2(y, y) <-- u(y);
   r2(std::cmp::min((v + 1), 4), v) <-- let v = 2, r1(_), r1(v), if (v > 1), f(v, v);
}

pub struct D(Prog);
impl Driven for D {
   fn push(&mut self, rel: &str, row: &Value) {
      match rel {
         "e" => { self.0.e.push((row[0].as_i64().unwrap() as i32, row[1].as_i64().unwrap() as i32,)); },
         "f" => { self.0.f.push((row[0].as_i64().unwrap() as i32, row[1].as_i64().unwrap() as i32,)); },
         "u" => { self.0.u.push((row[0].as_i64().unwrap() as i32,)); },
         "r0" => { self.0.r0.push((row[0].as_i64().unwrap() as i32, row[1].as_i64().unwrap() as i32, row[2].as_i64().unwrap() as i32,)); },
         "r1" => { self.0.r1.push((row[0].as_i64().unwrap() as i32,)); },
         "r2" => { self.0.r2.push((row[0].as_i64().unwrap() as i32, row[1].as_i64().unwrap() as i32,)); },
         _ => panic!("verif harness: unknown relation {}", rel),
      }
   }
   fn clear(&mut self, rel: &str) {
      match rel {
         "e" => { self.0.e = Default::default(); },
         "f" => { self.0.f = Default::default(); },
         "u" => { self.0.u = Default::default(); },
         "r0" => { self.0.r0 = Default::default(); },
         "r1" => { self.0.r1 = Default::default(); },
         "r2" => { self.0.r2 = Default::default(); },
         _ => panic!("verif harness: unknown relation {}", rel),
      }
   }
   fn run(&mut self) { self.0.run(); }
   fn dump(&self) -> Value {
      let mut m: Vec<(String, Value)> = vec![];
      m.push(("e".to_string(), rows_json(self.0.e.iter())));
      m.push(("f".to_string(), rows_json(self.0.f.iter())));
      m.push(("u".to_string(), rows_json(self.0.u.iter())));
      m.push(("r0".to_string(), rows_json(self.0.r0.iter())));
      m.push(("r1".to_string(), rows_json(self.0.r1.iter())));
      m.push(("r2".to_string(), rows_json(self.0.r2.iter())));
      Value::Obj(m)
   }
   fn summary(&self) -> String { Prog::summary().to_string() }
}
pub fn make() -> Box<dyn Driven> { Box::new(D(Prog::default())) }
