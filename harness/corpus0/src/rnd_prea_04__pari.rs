#![allow(unused_imports, unused_variables, unused_mut, dead_code, non_snake_case, unused_parens, clippy::all)]
use ascent::lattice::bounded_set::BoundedSet;
use ascent::lattice::constant_propagation::ConstPropagation;
use ascent::lattice::set::Set;
use ascent::lattice::Product;
use ascent::{Dual, Lattice};
use vh_lite::{rows_json, Driven, Value};
ascent::ascent_par! {
   #![inter_rule_parallelism]
   pub struct Prog;
   relation e(i32, i32);
   relation f(i32, i32);
   relation u(i32);
   relation r0(i32, i32);
   relation r1(i32, i32, i32);
   relation r2(i32);
   r0(z, z) <-- u(z);
   r0(y, y) <-- let x = 0, e(y, _) if ((*y) < 0), u(x) if (x <= (*y)), for v in (0)..((*y)), !f(0, 0);
   r1(std::cmp::min(((*w) + 1), 4), w, y) <-- r0(0, w), f(0, y), if ((*w) <= (*y)), !f(1, 2);
   r1(v, (y as i32), (y as i32)) <-- let w = 0, f(v, _), r1(z, _, _) if ((*z) > 2), if ((*z) <= w), agg y = ascent::aggregators::count() in f(z, v);
   r1(std::cmp::min(((*y) + 1), 4), w, y) <-- for w in (0)..(2), e(y, _), r1(x, w, x) if (w != 2), !u(y);
   r2((v as i32)) <-- r0(1, z), r0(z, z) if ((*z) == 1), for x in (0)..((*z)), r0(x, y), agg v = ascent::aggregators::count() in r1(z, _, z);
   r2(y) <-- for x in (0)..(3), r2(y), r0(_, x), if ((*y) <= x), agg z = ascent::aggregators::max(v) in u(v);
}

pub struct D(Prog);
impl Driven for D {
   fn push(&mut self, rel: &str, row: &Value) {
      match rel {
         "e" => { self.0.e.push((row[0].as_i64().unwrap() as i32, row[1].as_i64().unwrap() as i32,)); },
         "f" => { self.0.f.push((row[0].as_i64().unwrap() as i32, row[1].as_i64().unwrap() as i32,)); },
         "u" => { self.0.u.push((row[0].as_i64().unwrap() as i32,)); },
         "r0" => { self.0.r0.push((row[0].as_i64().unwrap() as i32, row[1].as_i64().unwrap() as i32,)); },
         "r1" => { self.0.r1.push((row[0].as_i64().unwrap() as i32, row[1].as_i64().unwrap() as i32, row[2].as_i64().unwrap() as i32,)); },
         "r2" => { self.0.r2.push((row[0].as_i64().unwrap() as i32,)); },
         _ => panic!("verif harness: unknown relation {}", rel),
      }
   }
   fn clear(&mut self, rel: &str) {
      match rel {
         "e" => { self.0.e = Default::default(); },
         "f" => { self.0.f = Default::default(); },
         "u" => { self.0.u = Default::default(); },
         "r0" => { self.0.r0 = Default::default(); },
         "r1" => { self.0.r1 = Default::default(); },
         "r2" => { self.0.r2 = Default::default(); },
         _ => panic!("verif harness: unknown relation {}", rel),
      }
   }
   fn run(&mut self) { self.0.run(); }
   fn dump(&self) -> Value {
      let mut m: Vec<(String, Value)> = vec![];
      m.push(("e".to_string(), rows_json(self.0.e.iter())));
      m.push(("f".to_string(), rows_json(self.0.f.iter())));
      m.push(("u".to_string(), rows_json(self.0.u.iter())));
      m.push(("r0".to_string(), rows_json(self.0.r0.iter())));
      m.push(("r1".to_string(), rows_json(self.0.r1.iter())));
      m.push(("r2".to_string(), rows_json(self.0.r2.iter())));
      Value::Obj(m)
   }
   fn summary(&self) -> String { Prog::summary().to_string() }
}
pub fn make() -> Box<dyn Driven> { Box::new(D(Prog::default())) }
