#![allow(unused_imports, unused_variables, unused_mut, dead_code, non_snake_case, unused_parens, clippy::all)]
use ascent::lattice::bounded_set::BoundedSet;
use ascent::lattice::constant_propagation::ConstPropagation;
use ascent::lattice::set::Set;
use ascent::lattice::Product;
use ascent::{Dual, Lattice};
use vh_lite::{rows_json, Driven, Value};
ascent::ascent_par! {
   pub struct Prog;
   relation e(i32, i32);
   relation f(i32, i32);
   relation u(i32);
   relation r0(i32, i32, i32);
   relation r1(i32, i32);
   relation r2(i32, i32);
   r0(std::cmp::min((w + 1), 4), std::cmp::min((w + 1), 4), std::cmp::min((w + 1), 4)) <-- let w = 2, u((w + 1)) if (w < 1);
   r0(y, 0, v) <-- let y = 2, e(v, _), e(y, x);
   r0(z, v, v) <-- for v in (0)..(2), r0(y, _, _) if (v != 1), r0(y, v, z);
   r1(1, z) <-- e(z, _), f(z, ((*z) + 1));
   r1(w, w) <-- let w = 0, e(z, z), u(z), r1(_, y);
   r2(y, y) <-- r1(y, y);
   r2(y, w) <-- for z in (0)..(2), e(y, y), u(x), for w in (0)..(z), r2(z, y);
}

pub struct D(Prog);
impl Driven for D {
   fn push(&mut self, rel: &str, row: &Value) {
      match rel {
         "e" => { self.0.e.push((row[0].as_i64().unwrap() as i32, row[1].as_i64().unwrap() as i32,)); },
         "f" => { self.0.f.push((row[0].as_i64().unwrap() as i32, row[1].as_i64().unwrap() as i32,)); },
         "u" => { self.0.u.push((row[0].as_i64().unwrap() as i32,)); },
         "r0" => { self.0.r0.push((row[0].as_i64().unwrap() as i32, row[1].as_i64().unwrap() as i32, row[2].as_i64().unwrap() as i32,)); },
         "r1" => { self.0.r1.push((row[0].as_i64().unwrap() as i32, row[1].as_i64().unwrap() as i32,)); },
         "r2" => { self.0.r2.push((row[0].as_i64().unwrap() as i32, row[1].as_i64().unwrap() as i32,)); },
         _ => panic!("verif harness: unknown relation {}", rel),
      }
   }
   fn clear(&mut self, rel: &str) {
      match rel {
         "e" => { self.0.e = Default::default(); },
         "f" => { self.0.f = Default::default(); },
         "u" => { self.0.u = Default::default(); },
         "r0" => { self.0.r0 = Default::default(); },
         "r1" => { self.0.r1 = Default::default(); },
         "r2" => { self.0.r2 = Default::default(); },
         _ => panic!("verif harness: unknown relation {}", rel),
      }
   }
   fn run(&mut self) { self.0.run(); }
   fn dump(&self) -> Value {
      let mut m: Vec<(String, Value)> = vec![];
      m.push(("e".to_string(), rows_json(self.0.e.iter())));
      m.push(("f".to_string(), rows_json(self.0.f.iter())));
      m.push(("u".to_string(), rows_json(self.0.u.iter())));
      m.push(("r0".to_string(), rows_json(self.0.r0.iter())));
      m.push(("r1".to_string(), rows_json(self.0.r1.iter())));
      m.push(("r2".to_string(), rows_json(self.0.r2.iter())));
      Value::Obj(m)
   }
   fn summary(&self) -> String { Prog::summary().to_string() }
}
pub fn make() -> Box<dyn Driven> { Box::new(D(Prog::default())) }
