#![allow(unused_imports, unused_variables, unused_mut, dead_code, non_snake_case, unused_parens, clippy::all)]
use ascent::lattice::bounded_set::BoundedSet;
use ascent::lattice::constant_propagation::ConstPropagation;
use ascent::lattice::set::Set;
use ascent::lattice::Product;
use ascent::{Dual, Lattice};
use vh_lite::{rows_json, Driven, Value};
ascent::ascent_par! {
   #![inter_rule_parallelism]
   pub struct Prog;
   relation a(i32, i32);
   relation cpy(i32, i32);
   lattice val(i32, ConstPropagation<i32>);
   relation isc(i32, i32);
   relation ist(i32);
   val(x, ConstPropagation::Constant((*c))) <-- a(x, c);
   val(y, v) <-- cpy(x, y), val(x, v);
   isc(x, c) <-- val(x, v), for c in (0)..(3), if ((*v) == ConstPropagation::Constant(c));
   ist(x) <-- val(x, v), if matches!((*v), ConstPropagation::Top);
}

pub struct D(Prog);
impl Driven for D {
   fn push(&mut self, rel: &str, row: &Value) {
      match rel {
         "a" => { self.0.a.push((row[0].as_i64().unwrap() as i32, row[1].as_i64().unwrap() as i32,)); },
         "cpy" => { self.0.cpy.push((row[0].as_i64().unwrap() as i32, row[1].as_i64().unwrap() as i32,)); },
         "val" => { self.0.val.push(std::sync::RwLock::new((row[0].as_i64().unwrap() as i32, panic!("verif harness: cannot push a value of lattice type cp_i32"),))); },
         "isc" => { self.0.isc.push((row[0].as_i64().unwrap() as i32, row[1].as_i64().unwrap() as i32,)); },
         "ist" => { self.0.ist.push((row[0].as_i64().unwrap() as i32,)); },
         _ => panic!("verif harness: unknown relation {}", rel),
      }
   }
   fn clear(&mut self, rel: &str) {
      match rel {
         "a" => { self.0.a = Default::default(); },
         "cpy" => { self.0.cpy = Default::default(); },
         "val" => { self.0.val = Default::default(); },
         "isc" => { self.0.isc = Default::default(); },
         "ist" => { self.0.ist = Default::default(); },
         _ => panic!("verif harness: unknown relation {}", rel),
      }
   }
   fn run(&mut self) { self.0.run(); }
   fn dump(&self) -> Value {
      let mut m: Vec<(String, Value)> = vec![];
      m.push(("a".to_string(), rows_json(self.0.a.iter())));
      m.push(("cpy".to_string(), rows_json(self.0.cpy.iter())));
      let __v: Vec<(i32, ConstPropagation<i32>,)> = self.0.val.iter().map(|r| r.read().unwrap().clone()).collect();
      m.push(("val".to_string(), rows_json(__v.iter())));
      m.push(("isc".to_string(), rows_json(self.0.isc.iter())));
      m.push(("ist".to_string(), rows_json(self.0.ist.iter())));
      Value::Obj(m)
   }
   fn summary(&self) -> String { Prog::summary().to_string() }
}
pub fn make() -> Box<dyn Driven> { Box::new(D(Prog::default())) }
