#![allow(unused_imports, unused_variables, unused_mut, dead_code, non_snake_case, unused_parens, clippy::all)]
use ascent::lattice::bounded_set::BoundedSet;
use ascent::lattice::constant_propagation::ConstPropagation;
use ascent::lattice::set::Set;
use ascent::lattice::Product;
use ascent::{Dual, Lattice};
use vh_lite::{rows_json, Driven, Value};

use vh_lite::{read_cases, drive, drive_group, quiet_panics, Out};

mod tc_right__ser;
mod tc_left__to;
mod tc_left__srcto;
mod tc_left__permpar;
mod tc_nonlin__topar;
mod mutual__ser;
mod mutual__src0;
mod mutual__perm1;
mod scc_chain__par;
mod scc_chain__str;
mod consts__pari;
mod repeated__str;
mod three_dyn__perm1;
mod four_dyn__par;
mod conds__src0;
mod conds__perm1;
mod count_up__par;
mod multi_head__topar;
mod facts__run;
mod facts__init;
mod facts__u64;
mod opt_cols__src0;
mod cartesian__ser;
mod same_gen__perm1;
mod not_reorderable__par;
mod pre_join_rec__ser;
mod pre_join_rec__permpar;
mod two_inputs__gen;
mod two_inputs__srcpar;
mod wild__ser;
mod ternary__ren;
mod bound_mix__perm1;
mod join_chain__par;
mod join_chain__strpar;
mod reach__topar;
mod lag_right__par;
mod lag_right__str;
mod lag_three__ser;
mod lag_mid__perm1;
mod lag_late_delta__par;
mod multi_head_rec__topar;
mod sp_dual__run;
mod sp_dual__init;
mod sp_weighted__par;
mod longest_capped__topar;
mod set_reach__gen;
mod set_reach__srcpar;
mod cp__pari;
mod lex_lat__pari;
mod lat_multi_improve__par;
mod lat_pre_join__topar;
mod lat_input__par;
mod lat_input__src1;
mod count_paths__par;
mod count_paths__src1;
mod neg_basic__par;
mod neg_basic__src1;
mod neg_basic__perm2;
mod agg_depth__ser;
mod agg_lattice__to;
mod neg_rec_after__exp;
mod agg_empty__to;
mod agg_const_args__par;
mod disj__par;
mod disj__src1;
mod disj__perm2;
mod disj_nested__exp;
mod rep_expr__par;
mod multi_head_disj__exppar;
mod mac_basic__pari;
mod mac_basic__src2;
mod mac_capture__ser;
mod mac_nested__exp;
mod mac_disj__par;
mod stress_rel__par;
mod rnd_core_03__ser;
mod rnd_core_05__pari;
mod rnd_core_08__par;
mod rnd_core_11__ser;
mod rnd_core_13__pari;
mod rnd_core_16__par;
mod rnd_core_19__ser;
mod rnd_core_21__pari;
mod rnd_core_24__par;
mod rnd_core_27__ser;
mod rnd_core_29__pari;
mod rnd_agg_02__par;
mod rnd_agg_05__ser;
mod rnd_agg_07__pari;
mod rnd_agg_10__par;
mod rnd_agg_13__ser;
mod rnd_agg_15__pari;
mod rnd_prec_02__pari;
mod rnd_prec_04__ser;
mod rnd_prec_05__to;
mod rnd_prec_07__par;
mod rnd_prec_08__topar;
mod rnd_prea_03__par;
mod rnd_prea_06__ser;
mod rnd_prea_08__pari;

fn lookup(name: &str) -> fn() -> Box<dyn Driven> {
   match name {
      "tc_right__ser" => tc_right__ser::make,
      "tc_left__to" => tc_left__to::make,
      "tc_left__srcto" => tc_left__srcto::make,
      "tc_left__permpar" => tc_left__permpar::make,
      "tc_nonlin__topar" => tc_nonlin__topar::make,
      "mutual__ser" => mutual__ser::make,
      "mutual__src0" => mutual__src0::make,
      "mutual__perm1" => mutual__perm1::make,
      "scc_chain__par" => scc_chain__par::make,
      "scc_chain__str" => scc_chain__str::make,
      "consts__pari" => consts__pari::make,
      "repeated__str" => repeated__str::make,
      "three_dyn__perm1" => three_dyn__perm1::make,
      "four_dyn__par" => four_dyn__par::make,
      "conds__src0" => conds__src0::make,
      "conds__perm1" => conds__perm1::make,
      "count_up__par" => count_up__par::make,
      "multi_head__topar" => multi_head__topar::make,
      "facts__run" => facts__run::make,
      "facts__init" => facts__init::make,
      "facts__u64" => facts__u64::make,
      "opt_cols__src0" => opt_cols__src0::make,
      "cartesian__ser" => cartesian__ser::make,
      "same_gen__perm1" => same_gen__perm1::make,
      "not_reorderable__par" => not_reorderable__par::make,
      "pre_join_rec__ser" => pre_join_rec__ser::make,
      "pre_join_rec__permpar" => pre_join_rec__permpar::make,
      "two_inputs__gen" => two_inputs__gen::make,
      "two_inputs__srcpar" => two_inputs__srcpar::make,
      "wild__ser" => wild__ser::make,
      "ternary__ren" => ternary__ren::make,
      "bound_mix__perm1" => bound_mix__perm1::make,
      "join_chain__par" => join_chain__par::make,
      "join_chain__strpar" => join_chain__strpar::make,
      "reach__topar" => reach__topar::make,
      "lag_right__par" => lag_right__par::make,
      "lag_right__str" => lag_right__str::make,
      "lag_three__ser" => lag_three__ser::make,
      "lag_mid__perm1" => lag_mid__perm1::make,
      "lag_late_delta__par" => lag_late_delta__par::make,
      "multi_head_rec__topar" => multi_head_rec__topar::make,
      "sp_dual__run" => sp_dual__run::make,
      "sp_dual__init" => sp_dual__init::make,
      "sp_weighted__par" => sp_weighted__par::make,
      "longest_capped__topar" => longest_capped__topar::make,
      "set_reach__gen" => set_reach__gen::make,
      "set_reach__srcpar" => set_reach__srcpar::make,
      "cp__pari" => cp__pari::make,
      "lex_lat__pari" => lex_lat__pari::make,
      "lat_multi_improve__par" => lat_multi_improve__par::make,
      "lat_pre_join__topar" => lat_pre_join__topar::make,
      "lat_input__par" => lat_input__par::make,
      "lat_input__src1" => lat_input__src1::make,
      "count_paths__par" => count_paths__par::make,
      "count_paths__src1" => count_paths__src1::make,
      "neg_basic__par" => neg_basic__par::make,
      "neg_basic__src1" => neg_basic__src1::make,
      "neg_basic__perm2" => neg_basic__perm2::make,
      "agg_depth__ser" => agg_depth__ser::make,
      "agg_lattice__to" => agg_lattice__to::make,
      "neg_rec_after__exp" => neg_rec_after__exp::make,
      "agg_empty__to" => agg_empty__to::make,
      "agg_const_args__par" => agg_const_args__par::make,
      "disj__par" => disj__par::make,
      "disj__src1" => disj__src1::make,
      "disj__perm2" => disj__perm2::make,
      "disj_nested__exp" => disj_nested__exp::make,
      "rep_expr__par" => rep_expr__par::make,
      "multi_head_disj__exppar" => multi_head_disj__exppar::make,
      "mac_basic__pari" => mac_basic__pari::make,
      "mac_basic__src2" => mac_basic__src2::make,
      "mac_capture__ser" => mac_capture__ser::make,
      "mac_nested__exp" => mac_nested__exp::make,
      "mac_disj__par" => mac_disj__par::make,
      "stress_rel__par" => stress_rel__par::make,
      "rnd_core_03__ser" => rnd_core_03__ser::make,
      "rnd_core_05__pari" => rnd_core_05__pari::make,
      "rnd_core_08__par" => rnd_core_08__par::make,
      "rnd_core_11__ser" => rnd_core_11__ser::make,
      "rnd_core_13__pari" => rnd_core_13__pari::make,
      "rnd_core_16__par" => rnd_core_16__par::make,
      "rnd_core_19__ser" => rnd_core_19__ser::make,
      "rnd_core_21__pari" => rnd_core_21__pari::make,
      "rnd_core_24__par" => rnd_core_24__par::make,
      "rnd_core_27__ser" => rnd_core_27__ser::make,
      "rnd_core_29__pari" => rnd_core_29__pari::make,
      "rnd_agg_02__par" => rnd_agg_02__par::make,
      "rnd_agg_05__ser" => rnd_agg_05__ser::make,
      "rnd_agg_07__pari" => rnd_agg_07__pari::make,
      "rnd_agg_10__par" => rnd_agg_10__par::make,
      "rnd_agg_13__ser" => rnd_agg_13__ser::make,
      "rnd_agg_15__pari" => rnd_agg_15__pari::make,
      "rnd_prec_02__pari" => rnd_prec_02__pari::make,
      "rnd_prec_04__ser" => rnd_prec_04__ser::make,
      "rnd_prec_05__to" => rnd_prec_05__to::make,
      "rnd_prec_07__par" => rnd_prec_07__par::make,
      "rnd_prec_08__topar" => rnd_prec_08__topar::make,
      "rnd_prea_03__par" => rnd_prea_03__par::make,
      "rnd_prea_06__ser" => rnd_prea_06__ser::make,
      "rnd_prea_08__pari" => rnd_prea_08__pari::make,
      _ => panic!("no such program variant in this shard: {}", name),
   }
}

fn main() {
   quiet_panics();
   let mut out = Out::open();
   let cases = read_cases();
   let mut i = 0;
   while i < cases.len() {
      let case = &cases[i];
      let m = format!("{}__{}", case["prog"].as_str().unwrap(), case["var"].as_str().unwrap());
      if let Some(g) = case["group"].as_i64() {
         // cases of one group run simultaneously
         let mut grp = vec![];
         while i < cases.len() && cases[i]["group"].as_i64() == Some(g) {
            let m = format!("{}__{}", cases[i]["prog"].as_str().unwrap(), cases[i]["var"].as_str().unwrap());
            grp.push((cases[i].clone(), lookup(&m)));
            i += 1;
         }
         drive_group(&grp, &mut out);
      } else {
         drive(case, &mut out, lookup(&m));
         i += 1;
      }
   }
   out.flush();
}
