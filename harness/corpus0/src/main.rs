#![allow(unused_imports, unused_variables, unused_mut, dead_code, non_snake_case, unused_parens, clippy::all)]
use ascent::lattice::bounded_set::BoundedSet;
use ascent::lattice::constant_propagation::ConstPropagation;
use ascent::lattice::set::Set;
use ascent::lattice::Product;
use ascent::{Dual, Lattice};
use vh_lite::{rows_json, Driven, Value};

use vh_lite::{read_cases, drive, drive_group, quiet_panics, Out};

mod tc_right__ser;
mod tc_left__to;
mod tc_left__redecl;
mod tc_left__str;
mod tc_nonlin__perm1;
mod mutual__par;
mod mutual__src1;
mod mutual__ren;
mod scc_chain__to;
mod scc_chain__strpar;
mod repeated__par;
mod repeated__strpar;
mod three_dyn__ren;
mod conds__ser;
mod conds__src2;
mod conds__permpar;
mod count_up__topar;
mod multi_head__ren;
mod facts__src0;
mod facts__perm2;
mod opt_cols__pari;
mod opt_cols__init;
mod same_gen__pari;
mod same_gen__u64;
mod two_inputs__to;
mod two_inputs__redecl;
mod two_inputs__str;
mod ternary__pari;
mod bound_mix__ser;
mod bound_mix__u64;
mod join_chain__permpar;
mod reach__par;
mod self_join3__par;
mod lag_right__perm2;
mod lag_left__pari;
mod lag_mid__ser;
mod lag_mid__u64;
mod sp_dual__par;
mod sp_dual__src1;
mod sp_dual__ren;
mod longest_capped__par;
mod set_reach__topar;
mod set_reach__init;
mod cp__pari;
mod lex_lat__pari;
mod lat_multi_improve__par;
mod count_paths__par;
mod count_paths__src1;
mod neg_basic__pari;
mod neg_basic__src2;
mod neg_basic__permpar;
mod agg_depth__pari;
mod agg_user__ser;
mod agg_bound_mix__ser;
mod agg_empty_rel__ser;
mod agg_const_args__exp;
mod disj__mrt;
mod disj__srcpar;
mod disj_nested__par;
mod pat_args__exppar;
mod multi_head_disj__pari;
mod mac_basic__ser;
mod mac_basic__src0;
mod mac_basic__exppar;
mod mac_nested__pari;
mod mac_disj__ser;

fn lookup(name: &str) -> fn() -> Box<dyn Driven> {
   match name {
      "tc_right__ser" => tc_right__ser::make,
      "tc_left__to" => tc_left__to::make,
      "tc_left__redecl" => tc_left__redecl::make,
      "tc_left__str" => tc_left__str::make,
      "tc_nonlin__perm1" => tc_nonlin__perm1::make,
      "mutual__par" => mutual__par::make,
      "mutual__src1" => mutual__src1::make,
      "mutual__ren" => mutual__ren::make,
      "scc_chain__to" => scc_chain__to::make,
      "scc_chain__strpar" => scc_chain__strpar::make,
      "repeated__par" => repeated__par::make,
      "repeated__strpar" => repeated__strpar::make,
      "three_dyn__ren" => three_dyn__ren::make,
      "conds__ser" => conds__ser::make,
      "conds__src2" => conds__src2::make,
      "conds__permpar" => conds__permpar::make,
      "count_up__topar" => count_up__topar::make,
      "multi_head__ren" => multi_head__ren::make,
      "facts__src0" => facts__src0::make,
      "facts__perm2" => facts__perm2::make,
      "opt_cols__pari" => opt_cols__pari::make,
      "opt_cols__init" => opt_cols__init::make,
      "same_gen__pari" => same_gen__pari::make,
      "same_gen__u64" => same_gen__u64::make,
      "two_inputs__to" => two_inputs__to::make,
      "two_inputs__redecl" => two_inputs__redecl::make,
      "two_inputs__str" => two_inputs__str::make,
      "ternary__pari" => ternary__pari::make,
      "bound_mix__ser" => bound_mix__ser::make,
      "bound_mix__u64" => bound_mix__u64::make,
      "join_chain__permpar" => join_chain__permpar::make,
      "reach__par" => reach__par::make,
      "self_join3__par" => self_join3__par::make,
      "lag_right__perm2" => lag_right__perm2::make,
      "lag_left__pari" => lag_left__pari::make,
      "lag_mid__ser" => lag_mid__ser::make,
      "lag_mid__u64" => lag_mid__u64::make,
      "sp_dual__par" => sp_dual__par::make,
      "sp_dual__src1" => sp_dual__src1::make,
      "sp_dual__ren" => sp_dual__ren::make,
      "longest_capped__par" => longest_capped__par::make,
      "set_reach__topar" => set_reach__topar::make,
      "set_reach__init" => set_reach__init::make,
      "cp__pari" => cp__pari::make,
      "lex_lat__pari" => lex_lat__pari::make,
      "lat_multi_improve__par" => lat_multi_improve__par::make,
      "count_paths__par" => count_paths__par::make,
      "count_paths__src1" => count_paths__src1::make,
      "neg_basic__pari" => neg_basic__pari::make,
      "neg_basic__src2" => neg_basic__src2::make,
      "neg_basic__permpar" => neg_basic__permpar::make,
      "agg_depth__pari" => agg_depth__pari::make,
      "agg_user__ser" => agg_user__ser::make,
      "agg_bound_mix__ser" => agg_bound_mix__ser::make,
      "agg_empty_rel__ser" => agg_empty_rel__ser::make,
      "agg_const_args__exp" => agg_const_args__exp::make,
      "disj__mrt" => disj__mrt::make,
      "disj__srcpar" => disj__srcpar::make,
      "disj_nested__par" => disj_nested__par::make,
      "pat_args__exppar" => pat_args__exppar::make,
      "multi_head_disj__pari" => multi_head_disj__pari::make,
      "mac_basic__ser" => mac_basic__ser::make,
      "mac_basic__src0" => mac_basic__src0::make,
      "mac_basic__exppar" => mac_basic__exppar::make,
      "mac_nested__pari" => mac_nested__pari::make,
      "mac_disj__ser" => mac_disj__ser::make,
      _ => panic!("no such program variant in this shard: {}", name),
   }
}

fn main() {
   quiet_panics();
   let mut out = Out::open();
   let cases = read_cases();
   let mut i = 0;
   while i < cases.len() {
      let case = &cases[i];
      let m = format!("{}__{}", case["prog"].as_str().unwrap(), case["var"].as_str().unwrap());
      if let Some(g) = case["group"].as_i64() {
         // cases of one group run simultaneously
         let mut grp = vec![];
         while i < cases.len() && cases[i]["group"].as_i64() == Some(g) {
            let m = format!("{}__{}", cases[i]["prog"].as_str().unwrap(), cases[i]["var"].as_str().unwrap());
            grp.push((cases[i].clone(), lookup(&m)));
            i += 1;
         }
         drive_group(&grp, &mut out);
      } else {
         drive(case, &mut out, lookup(&m));
         i += 1;
      }
   }
   out.flush();
}
