#![allow(unused_imports, unused_variables, unused_mut, dead_code, non_snake_case, unused_parens, clippy::all)]
use ascent::lattice::bounded_set::BoundedSet;
use ascent::lattice::constant_propagation::ConstPropagation;
use ascent::lattice::set::Set;
use ascent::lattice::Product;
use ascent::{Dual, Lattice};
use vh_lite::{rows_json, Driven, Value};

use vh_lite::{read_cases, drive, drive_group, quiet_panics, Out};

mod tc_right__ser;
mod tc_left__to;
mod tc_left__srcto;
mod tc_left__permpar;
mod tc_nonlin__topar;
mod mutual__ser;
mod mutual__src0;
mod mutual__perm1;
mod scc_chain__par;
mod scc_chain__str;
mod consts__pari;
mod repeated__str;
mod three_dyn__perm1;
mod four_dyn__par;
mod conds__src0;
mod conds__perm1;
mod count_up__par;
mod multi_head__topar;
mod facts__run;
mod facts__init;
mod facts__u64;
mod opt_cols__src0;
mod cartesian__ser;
mod same_gen__perm1;
mod not_reorderable__par;
mod two_inputs__mrt;
mod two_inputs__runpar;
mod two_inputs__strpar;
mod ternary__perm2;
mod bound_mix__pari;
mod join_chain__ser;
mod join_chain__u64;
mod reach__to;
mod lag_right__ser;
mod lag_right__permpar;
mod lag_left__topar;
mod lag_mid__pari;
mod lag_late_delta__ser;
mod multi_head_rec__to;
mod sp_dual__topar;
mod sp_dual__redecl;
mod sp_weighted__ser;
mod longest_capped__to;
mod set_reach__mrt;
mod set_reach__runpar;
mod cp__par;
mod lex_lat__par;
mod lat_multi_improve__ser;
mod lat_input__ser;
mod lat_input__src0;
mod count_paths__ser;
mod count_paths__src0;
mod neg_basic__ser;
mod neg_basic__src0;
mod neg_basic__perm1;
mod agg_minmaxsum__pari;
mod agg_lattice__pari;
mod neg_rec_after__pari;
mod agg_empty__pari;
mod agg_const_args__ser;
mod disj__to;
mod disj__srcto;
mod disj__permpar;
mod pat_args__ser;
mod rep_expr__exp;
mod neg_in_disj__par;
mod mac_basic__topar;
mod mac_basic__redecl;
mod mac_capture__pari;
mod mac_gensym_disj__ser;
mod mac_disj__exp;
mod rnd_core_03__ser;
mod rnd_core_05__pari;
mod rnd_core_08__par;
mod rnd_core_11__ser;
mod rnd_core_13__pari;
mod rnd_core_16__par;
mod rnd_core_19__ser;
mod rnd_core_21__pari;
mod rnd_core_24__par;
mod rnd_core_27__ser;
mod rnd_core_29__pari;
mod rnd_agg_02__par;
mod rnd_agg_05__ser;
mod rnd_agg_07__pari;
mod rnd_agg_10__par;
mod rnd_agg_13__ser;
mod rnd_agg_15__pari;

fn lookup(name: &str) -> fn() -> Box<dyn Driven> {
   match name {
      "tc_right__ser" => tc_right__ser::make,
      "tc_left__to" => tc_left__to::make,
      "tc_left__srcto" => tc_left__srcto::make,
      "tc_left__permpar" => tc_left__permpar::make,
      "tc_nonlin__topar" => tc_nonlin__topar::make,
      "mutual__ser" => mutual__ser::make,
      "mutual__src0" => mutual__src0::make,
      "mutual__perm1" => mutual__perm1::make,
      "scc_chain__par" => scc_chain__par::make,
      "scc_chain__str" => scc_chain__str::make,
      "consts__pari" => consts__pari::make,
      "repeated__str" => repeated__str::make,
      "three_dyn__perm1" => three_dyn__perm1::make,
      "four_dyn__par" => four_dyn__par::make,
      "conds__src0" => conds__src0::make,
      "conds__perm1" => conds__perm1::make,
      "count_up__par" => count_up__par::make,
      "multi_head__topar" => multi_head__topar::make,
      "facts__run" => facts__run::make,
      "facts__init" => facts__init::make,
      "facts__u64" => facts__u64::make,
      "opt_cols__src0" => opt_cols__src0::make,
      "cartesian__ser" => cartesian__ser::make,
      "same_gen__perm1" => same_gen__perm1::make,
      "not_reorderable__par" => not_reorderable__par::make,
      "two_inputs__mrt" => two_inputs__mrt::make,
      "two_inputs__runpar" => two_inputs__runpar::make,
      "two_inputs__strpar" => two_inputs__strpar::make,
      "ternary__perm2" => ternary__perm2::make,
      "bound_mix__pari" => bound_mix__pari::make,
      "join_chain__ser" => join_chain__ser::make,
      "join_chain__u64" => join_chain__u64::make,
      "reach__to" => reach__to::make,
      "lag_right__ser" => lag_right__ser::make,
      "lag_right__permpar" => lag_right__permpar::make,
      "lag_left__topar" => lag_left__topar::make,
      "lag_mid__pari" => lag_mid__pari::make,
      "lag_late_delta__ser" => lag_late_delta__ser::make,
      "multi_head_rec__to" => multi_head_rec__to::make,
      "sp_dual__topar" => sp_dual__topar::make,
      "sp_dual__redecl" => sp_dual__redecl::make,
      "sp_weighted__ser" => sp_weighted__ser::make,
      "longest_capped__to" => longest_capped__to::make,
      "set_reach__mrt" => set_reach__mrt::make,
      "set_reach__runpar" => set_reach__runpar::make,
      "cp__par" => cp__par::make,
      "lex_lat__par" => lex_lat__par::make,
      "lat_multi_improve__ser" => lat_multi_improve__ser::make,
      "lat_input__ser" => lat_input__ser::make,
      "lat_input__src0" => lat_input__src0::make,
      "count_paths__ser" => count_paths__ser::make,
      "count_paths__src0" => count_paths__src0::make,
      "neg_basic__ser" => neg_basic__ser::make,
      "neg_basic__src0" => neg_basic__src0::make,
      "neg_basic__perm1" => neg_basic__perm1::make,
      "agg_minmaxsum__pari" => agg_minmaxsum__pari::make,
      "agg_lattice__pari" => agg_lattice__pari::make,
      "neg_rec_after__pari" => neg_rec_after__pari::make,
      "agg_empty__pari" => agg_empty__pari::make,
      "agg_const_args__ser" => agg_const_args__ser::make,
      "disj__to" => disj__to::make,
      "disj__srcto" => disj__srcto::make,
      "disj__permpar" => disj__permpar::make,
      "pat_args__ser" => pat_args__ser::make,
      "rep_expr__exp" => rep_expr__exp::make,
      "neg_in_disj__par" => neg_in_disj__par::make,
      "mac_basic__topar" => mac_basic__topar::make,
      "mac_basic__redecl" => mac_basic__redecl::make,
      "mac_capture__pari" => mac_capture__pari::make,
      "mac_gensym_disj__ser" => mac_gensym_disj__ser::make,
      "mac_disj__exp" => mac_disj__exp::make,
      "rnd_core_03__ser" => rnd_core_03__ser::make,
      "rnd_core_05__pari" => rnd_core_05__pari::make,
      "rnd_core_08__par" => rnd_core_08__par::make,
      "rnd_core_11__ser" => rnd_core_11__ser::make,
      "rnd_core_13__pari" => rnd_core_13__pari::make,
      "rnd_core_16__par" => rnd_core_16__par::make,
      "rnd_core_19__ser" => rnd_core_19__ser::make,
      "rnd_core_21__pari" => rnd_core_21__pari::make,
      "rnd_core_24__par" => rnd_core_24__par::make,
      "rnd_core_27__ser" => rnd_core_27__ser::make,
      "rnd_core_29__pari" => rnd_core_29__pari::make,
      "rnd_agg_02__par" => rnd_agg_02__par::make,
      "rnd_agg_05__ser" => rnd_agg_05__ser::make,
      "rnd_agg_07__pari" => rnd_agg_07__pari::make,
      "rnd_agg_10__par" => rnd_agg_10__par::make,
      "rnd_agg_13__ser" => rnd_agg_13__ser::make,
      "rnd_agg_15__pari" => rnd_agg_15__pari::make,
      _ => panic!("no such program variant in this shard: {}", name),
   }
}

fn main() {
   quiet_panics();
   let mut out = Out::open();
   let cases = read_cases();
   let mut i = 0;
   while i < cases.len() {
      let case = &cases[i];
      let m = format!("{}__{}", case["prog"].as_str().unwrap(), case["var"].as_str().unwrap());
      if let Some(g) = case["group"].as_i64() {
         // cases of one group run simultaneously
         let mut grp = vec![];
         while i < cases.len() && cases[i]["group"].as_i64() == Some(g) {
            let m = format!("{}__{}", cases[i]["prog"].as_str().unwrap(), cases[i]["var"].as_str().unwrap());
            grp.push((cases[i].clone(), lookup(&m)));
            i += 1;
         }
         drive_group(&grp, &mut out);
      } else {
         drive(case, &mut out, lookup(&m));
         i += 1;
      }
   }
   out.flush();
}
