#![allow(unused_imports, unused_variables, unused_mut, dead_code, non_snake_case, unused_parens, clippy::all)]
use ascent::lattice::bounded_set::BoundedSet;
use ascent::lattice::constant_propagation::ConstPropagation;
use ascent::lattice::set::Set;
use ascent::lattice::Product;
use ascent::{Dual, Lattice};
use vh_lite::{rows_json, Driven, Value};

use vh_lite::{read_cases, drive, drive_group, quiet_panics, Out};

mod tc_right__ser;
mod tc_left__to;
mod tc_left__srcto;
mod tc_left__perm1;
mod tc_nonlin__par;
mod tc_nonlin__str;
mod mutual__run;
mod mutual__redecl;
mod mutual__ren;
mod scc_chain__to;
mod scc_chain__strpar;
mod repeated__par;
mod repeated__strpar;
mod three_dyn__ren;
mod conds__ser;
mod conds__src2;
mod conds__srcpar;
mod count_up__ser;
mod multi_head__to;
mod facts__pari;
mod facts__srcred;
mod facts__perm2;
mod opt_cols__pari;
mod opt_cols__srcred;
mod cartesian__par;
mod same_gen__perm2;
mod not_reorderable__pari;
mod pre_join_rec__par;
mod two_inputs__ser;
mod two_inputs__src0;
mod two_inputs__runhead;
mod two_inputs__u64;
mod ternary__perm1;
mod bound_mix__par;
mod bound_mix__strpar;
mod join_chain__str;
mod reach__pari;
mod self_join3__pari;
mod lag_right__ren;
mod lag_left__to;
mod lag_mid__par;
mod lag_mid__strpar;
mod multi_head_rec__pari;
mod sp_dual__to;
mod sp_dual__srcto;
mod sp_dual__perm1;
mod sp_weighted__topar;
mod set_reach__pari;
mod set_reach__src2;
mod set_reach__srcpar;
mod cp__pari;
mod lat_tree__pari;
mod lex_lat__pari;
mod lat_multi_improve__par;
mod lat_pre_join__topar;
mod lat_input__par;
mod lat_input__src1;
mod lat_input__runpar;
mod count_paths__mrt;
mod count_paths__init;
mod neg_basic__to;
mod neg_basic__srcto;
mod neg_basic__perm1;
mod agg_minmaxsum__pari;
mod agg_lattice__pari;
mod neg_rec_after__pari;
mod agg_empty__pari;
mod agg_const_args__ser;
mod disj__ser;
mod disj__src0;
mod disj__runhead;
mod disj__exppar;
mod pat_args__pari;
mod multi_head_disj__ser;
mod neg_in_disj__exp;
mod mac_basic__mrt;
mod mac_basic__init;
mod mac_capture__par;
mod mac_nested__exppar;
mod mac_local_names__pari;
mod mac_disj__ser;
mod stress_set__ser;
mod rnd_core_01__pari;
mod rnd_core_04__par;
mod rnd_core_07__ser;
mod rnd_core_09__pari;
mod rnd_core_12__par;
mod rnd_core_15__ser;
mod rnd_core_17__pari;
mod rnd_core_20__par;
mod rnd_core_23__ser;
mod rnd_core_25__pari;
mod rnd_core_28__par;
mod rnd_agg_01__ser;
mod rnd_agg_03__pari;
mod rnd_agg_06__par;
mod rnd_agg_09__ser;
mod rnd_agg_11__pari;
mod rnd_agg_14__par;
mod rnd_prec_01__to;
mod rnd_prec_03__par;
mod rnd_prec_04__topar;
mod rnd_prec_06__pari;
mod rnd_prec_08__ser;
mod rnd_prea_02__ser;
mod rnd_prea_04__pari;
mod rnd_prea_07__par;

fn lookup(name: &str) -> fn() -> Box<dyn Driven> {
   match name {
      "tc_right__ser" => tc_right__ser::make,
      "tc_left__to" => tc_left__to::make,
      "tc_left__srcto" => tc_left__srcto::make,
      "tc_left__perm1" => tc_left__perm1::make,
      "tc_nonlin__par" => tc_nonlin__par::make,
      "tc_nonlin__str" => tc_nonlin__str::make,
      "mutual__run" => mutual__run::make,
      "mutual__redecl" => mutual__redecl::make,
      "mutual__ren" => mutual__ren::make,
      "scc_chain__to" => scc_chain__to::make,
      "scc_chain__strpar" => scc_chain__strpar::make,
      "repeated__par" => repeated__par::make,
      "repeated__strpar" => repeated__strpar::make,
      "three_dyn__ren" => three_dyn__ren::make,
      "conds__ser" => conds__ser::make,
      "conds__src2" => conds__src2::make,
      "conds__srcpar" => conds__srcpar::make,
      "count_up__ser" => count_up__ser::make,
      "multi_head__to" => multi_head__to::make,
      "facts__pari" => facts__pari::make,
      "facts__srcred" => facts__srcred::make,
      "facts__perm2" => facts__perm2::make,
      "opt_cols__pari" => opt_cols__pari::make,
      "opt_cols__srcred" => opt_cols__srcred::make,
      "cartesian__par" => cartesian__par::make,
      "same_gen__perm2" => same_gen__perm2::make,
      "not_reorderable__pari" => not_reorderable__pari::make,
      "pre_join_rec__par" => pre_join_rec__par::make,
      "two_inputs__ser" => two_inputs__ser::make,
      "two_inputs__src0" => two_inputs__src0::make,
      "two_inputs__runhead" => two_inputs__runhead::make,
      "two_inputs__u64" => two_inputs__u64::make,
      "ternary__perm1" => ternary__perm1::make,
      "bound_mix__par" => bound_mix__par::make,
      "bound_mix__strpar" => bound_mix__strpar::make,
      "join_chain__str" => join_chain__str::make,
      "reach__pari" => reach__pari::make,
      "self_join3__pari" => self_join3__pari::make,
      "lag_right__ren" => lag_right__ren::make,
      "lag_left__to" => lag_left__to::make,
      "lag_mid__par" => lag_mid__par::make,
      "lag_mid__strpar" => lag_mid__strpar::make,
      "multi_head_rec__pari" => multi_head_rec__pari::make,
      "sp_dual__to" => sp_dual__to::make,
      "sp_dual__srcto" => sp_dual__srcto::make,
      "sp_dual__perm1" => sp_dual__perm1::make,
      "sp_weighted__topar" => sp_weighted__topar::make,
      "set_reach__pari" => set_reach__pari::make,
      "set_reach__src2" => set_reach__src2::make,
      "set_reach__srcpar" => set_reach__srcpar::make,
      "cp__pari" => cp__pari::make,
      "lat_tree__pari" => lat_tree__pari::make,
      "lex_lat__pari" => lex_lat__pari::make,
      "lat_multi_improve__par" => lat_multi_improve__par::make,
      "lat_pre_join__topar" => lat_pre_join__topar::make,
      "lat_input__par" => lat_input__par::make,
      "lat_input__src1" => lat_input__src1::make,
      "lat_input__runpar" => lat_input__runpar::make,
      "count_paths__mrt" => count_paths__mrt::make,
      "count_paths__init" => count_paths__init::make,
      "neg_basic__to" => neg_basic__to::make,
      "neg_basic__srcto" => neg_basic__srcto::make,
      "neg_basic__perm1" => neg_basic__perm1::make,
      "agg_minmaxsum__pari" => agg_minmaxsum__pari::make,
      "agg_lattice__pari" => agg_lattice__pari::make,
      "neg_rec_after__pari" => neg_rec_after__pari::make,
      "agg_empty__pari" => agg_empty__pari::make,
      "agg_const_args__ser" => agg_const_args__ser::make,
      "disj__ser" => disj__ser::make,
      "disj__src0" => disj__src0::make,
      "disj__runhead" => disj__runhead::make,
      "disj__exppar" => disj__exppar::make,
      "pat_args__pari" => pat_args__pari::make,
      "multi_head_disj__ser" => multi_head_disj__ser::make,
      "neg_in_disj__exp" => neg_in_disj__exp::make,
      "mac_basic__mrt" => mac_basic__mrt::make,
      "mac_basic__init" => mac_basic__init::make,
      "mac_capture__par" => mac_capture__par::make,
      "mac_nested__exppar" => mac_nested__exppar::make,
      "mac_local_names__pari" => mac_local_names__pari::make,
      "mac_disj__ser" => mac_disj__ser::make,
      "stress_set__ser" => stress_set__ser::make,
      "rnd_core_01__pari" => rnd_core_01__pari::make,
      "rnd_core_04__par" => rnd_core_04__par::make,
      "rnd_core_07__ser" => rnd_core_07__ser::make,
      "rnd_core_09__pari" => rnd_core_09__pari::make,
      "rnd_core_12__par" => rnd_core_12__par::make,
      "rnd_core_15__ser" => rnd_core_15__ser::make,
      "rnd_core_17__pari" => rnd_core_17__pari::make,
      "rnd_core_20__par" => rnd_core_20__par::make,
      "rnd_core_23__ser" => rnd_core_23__ser::make,
      "rnd_core_25__pari" => rnd_core_25__pari::make,
      "rnd_core_28__par" => rnd_core_28__par::make,
      "rnd_agg_01__ser" => rnd_agg_01__ser::make,
      "rnd_agg_03__pari" => rnd_agg_03__pari::make,
      "rnd_agg_06__par" => rnd_agg_06__par::make,
      "rnd_agg_09__ser" => rnd_agg_09__ser::make,
      "rnd_agg_11__pari" => rnd_agg_11__pari::make,
      "rnd_agg_14__par" => rnd_agg_14__par::make,
      "rnd_prec_01__to" => rnd_prec_01__to::make,
      "rnd_prec_03__par" => rnd_prec_03__par::make,
      "rnd_prec_04__topar" => rnd_prec_04__topar::make,
      "rnd_prec_06__pari" => rnd_prec_06__pari::make,
      "rnd_prec_08__ser" => rnd_prec_08__ser::make,
      "rnd_prea_02__ser" => rnd_prea_02__ser::make,
      "rnd_prea_04__pari" => rnd_prea_04__pari::make,
      "rnd_prea_07__par" => rnd_prea_07__par::make,
      _ => panic!("no such program variant in this shard: {}", name),
   }
}

fn main() {
   quiet_panics();
   let mut out = Out::open();
   let cases = read_cases();
   let mut i = 0;
   while i < cases.len() {
      let case = &cases[i];
      let m = format!("{}__{}", case["prog"].as_str().unwrap(), case["var"].as_str().unwrap());
      if let Some(g) = case["group"].as_i64() {
         // cases of one group run simultaneously
         let mut grp = vec![];
         while i < cases.len() && cases[i]["group"].as_i64() == Some(g) {
            let m = format!("{}__{}", cases[i]["prog"].as_str().unwrap(), cases[i]["var"].as_str().unwrap());
            grp.push((cases[i].clone(), lookup(&m)));
            i += 1;
         }
         drive_group(&grp, &mut out);
      } else {
         drive(case, &mut out, lookup(&m));
         i += 1;
      }
   }
   out.flush();
}
