#![allow(unused_imports, unused_variables, unused_mut, dead_code, non_snake_case, unused_parens, clippy::all)]
use ascent::lattice::bounded_set::BoundedSet;
use ascent::lattice::constant_propagation::ConstPropagation;
use ascent::lattice::set::Set;
use ascent::lattice::Product;
use ascent::{Dual, Lattice};
use vh_lite::{rows_json, Driven, Value};

use vh_lite::{read_cases, drive, drive_group, quiet_panics, Out};

mod tc_right__ser;
mod tc_left__to;
mod tc_left__srcto;
mod tc_left__ren;
mod tc_nonlin__to;
mod tc_nonlin__strpar;
mod mutual__gen;
mod mutual__runpar;
mod mutual__strpar;
mod scc_chain__ren;
mod consts__ser;
mod repeated__ren;
mod three_dyn__to;
mod three_dyn__strpar;
mod conds__mrt;
mod conds__init;
mod expr_args__par;
mod multi_head__par;
mod facts__ser;
mod facts__src2;
mod facts__perm2;
mod opt_cols__pari;
mod opt_cols__srcred;
mod same_gen__ser;
mod same_gen__permpar;
mod not_reorderable__topar;
mod pre_join_rec__to;
mod two_inputs__pari;
mod two_inputs__src2;
mod two_inputs__perm2;
mod wild__pari;
mod ternary__str;
mod bound_mix__ren;
mod join_chain__perm1;
mod cond_simple_join__par;
mod zero_arity__par;
mod lag_right__to;
mod lag_right__strpar;
mod lag_three__pari;
mod lag_mid__ren;
mod lag_late_delta__to;
mod multi_head_rec__exppar;
mod sp_dual__gen;
mod sp_dual__runpar;
mod sp_weighted__pari;
mod set_reach__ser;
mod set_reach__src0;
mod set_reach__srcpar;
mod cp__pari;
mod lat_tree__pari;
mod lex_lat__pari;
mod lat_multi_improve__par;
mod lat_pre_join__topar;
mod lat_input__par;
mod lat_input__src1;
mod count_paths__ser;
mod count_paths__src0;
mod count_paths__srcpar;
mod neg_basic__gen;
mod neg_basic__runpar;
mod agg_minmaxsum__ser;
mod agg_lattice__ser;
mod neg_rec_after__ser;
mod agg_empty__ser;
mod agg_empty_rel__to;
mod agg_pre_join__par;
mod disj__mrt;
mod disj__init;
mod disj__exppar;
mod pat_args__pari;
mod multi_head_disj__ser;
mod neg_in_disj__exp;
mod mac_basic__mrt;
mod mac_basic__init;
mod mac_capture__exp;
mod mac_gensym_disj__par;
mod mac_local_names__exppar;
mod mac_disj__pari;
mod stress_set__pari;
mod rnd_core_02__par;
mod rnd_core_05__ser;
mod rnd_core_07__pari;
mod rnd_core_10__par;
mod rnd_core_13__ser;
mod rnd_core_15__pari;
mod rnd_core_18__par;
mod rnd_core_21__ser;
mod rnd_core_23__pari;
mod rnd_core_26__par;
mod rnd_core_29__ser;
mod rnd_agg_01__pari;
mod rnd_agg_04__par;
mod rnd_agg_07__ser;
mod rnd_agg_09__pari;
mod rnd_agg_12__par;
mod rnd_agg_15__ser;
mod rnd_prec_02__ser;
mod rnd_prec_03__to;
mod rnd_prec_05__par;
mod rnd_prec_06__topar;
mod rnd_prec_08__pari;
mod rnd_prea_02__pari;
mod rnd_prea_05__par;
mod rnd_prea_08__ser;

fn lookup(name: &str) -> fn() -> Box<dyn Driven> {
   match name {
      "tc_right__ser" => tc_right__ser::make,
      "tc_left__to" => tc_left__to::make,
      "tc_left__srcto" => tc_left__srcto::make,
      "tc_left__ren" => tc_left__ren::make,
      "tc_nonlin__to" => tc_nonlin__to::make,
      "tc_nonlin__strpar" => tc_nonlin__strpar::make,
      "mutual__gen" => mutual__gen::make,
      "mutual__runpar" => mutual__runpar::make,
      "mutual__strpar" => mutual__strpar::make,
      "scc_chain__ren" => scc_chain__ren::make,
      "consts__ser" => consts__ser::make,
      "repeated__ren" => repeated__ren::make,
      "three_dyn__to" => three_dyn__to::make,
      "three_dyn__strpar" => three_dyn__strpar::make,
      "conds__mrt" => conds__mrt::make,
      "conds__init" => conds__init::make,
      "expr_args__par" => expr_args__par::make,
      "multi_head__par" => multi_head__par::make,
      "facts__ser" => facts__ser::make,
      "facts__src2" => facts__src2::make,
      "facts__perm2" => facts__perm2::make,
      "opt_cols__pari" => opt_cols__pari::make,
      "opt_cols__srcred" => opt_cols__srcred::make,
      "same_gen__ser" => same_gen__ser::make,
      "same_gen__permpar" => same_gen__permpar::make,
      "not_reorderable__topar" => not_reorderable__topar::make,
      "pre_join_rec__to" => pre_join_rec__to::make,
      "two_inputs__pari" => two_inputs__pari::make,
      "two_inputs__src2" => two_inputs__src2::make,
      "two_inputs__perm2" => two_inputs__perm2::make,
      "wild__pari" => wild__pari::make,
      "ternary__str" => ternary__str::make,
      "bound_mix__ren" => bound_mix__ren::make,
      "join_chain__perm1" => join_chain__perm1::make,
      "cond_simple_join__par" => cond_simple_join__par::make,
      "zero_arity__par" => zero_arity__par::make,
      "lag_right__to" => lag_right__to::make,
      "lag_right__strpar" => lag_right__strpar::make,
      "lag_three__pari" => lag_three__pari::make,
      "lag_mid__ren" => lag_mid__ren::make,
      "lag_late_delta__to" => lag_late_delta__to::make,
      "multi_head_rec__exppar" => multi_head_rec__exppar::make,
      "sp_dual__gen" => sp_dual__gen::make,
      "sp_dual__runpar" => sp_dual__runpar::make,
      "sp_weighted__pari" => sp_weighted__pari::make,
      "set_reach__ser" => set_reach__ser::make,
      "set_reach__src0" => set_reach__src0::make,
      "set_reach__srcpar" => set_reach__srcpar::make,
      "cp__pari" => cp__pari::make,
      "lat_tree__pari" => lat_tree__pari::make,
      "lex_lat__pari" => lex_lat__pari::make,
      "lat_multi_improve__par" => lat_multi_improve__par::make,
      "lat_pre_join__topar" => lat_pre_join__topar::make,
      "lat_input__par" => lat_input__par::make,
      "lat_input__src1" => lat_input__src1::make,
      "count_paths__ser" => count_paths__ser::make,
      "count_paths__src0" => count_paths__src0::make,
      "count_paths__srcpar" => count_paths__srcpar::make,
      "neg_basic__gen" => neg_basic__gen::make,
      "neg_basic__runpar" => neg_basic__runpar::make,
      "agg_minmaxsum__ser" => agg_minmaxsum__ser::make,
      "agg_lattice__ser" => agg_lattice__ser::make,
      "neg_rec_after__ser" => neg_rec_after__ser::make,
      "agg_empty__ser" => agg_empty__ser::make,
      "agg_empty_rel__to" => agg_empty_rel__to::make,
      "agg_pre_join__par" => agg_pre_join__par::make,
      "disj__mrt" => disj__mrt::make,
      "disj__init" => disj__init::make,
      "disj__exppar" => disj__exppar::make,
      "pat_args__pari" => pat_args__pari::make,
      "multi_head_disj__ser" => multi_head_disj__ser::make,
      "neg_in_disj__exp" => neg_in_disj__exp::make,
      "mac_basic__mrt" => mac_basic__mrt::make,
      "mac_basic__init" => mac_basic__init::make,
      "mac_capture__exp" => mac_capture__exp::make,
      "mac_gensym_disj__par" => mac_gensym_disj__par::make,
      "mac_local_names__exppar" => mac_local_names__exppar::make,
      "mac_disj__pari" => mac_disj__pari::make,
      "stress_set__pari" => stress_set__pari::make,
      "rnd_core_02__par" => rnd_core_02__par::make,
      "rnd_core_05__ser" => rnd_core_05__ser::make,
      "rnd_core_07__pari" => rnd_core_07__pari::make,
      "rnd_core_10__par" => rnd_core_10__par::make,
      "rnd_core_13__ser" => rnd_core_13__ser::make,
      "rnd_core_15__pari" => rnd_core_15__pari::make,
      "rnd_core_18__par" => rnd_core_18__par::make,
      "rnd_core_21__ser" => rnd_core_21__ser::make,
      "rnd_core_23__pari" => rnd_core_23__pari::make,
      "rnd_core_26__par" => rnd_core_26__par::make,
      "rnd_core_29__ser" => rnd_core_29__ser::make,
      "rnd_agg_01__pari" => rnd_agg_01__pari::make,
      "rnd_agg_04__par" => rnd_agg_04__par::make,
      "rnd_agg_07__ser" => rnd_agg_07__ser::make,
      "rnd_agg_09__pari" => rnd_agg_09__pari::make,
      "rnd_agg_12__par" => rnd_agg_12__par::make,
      "rnd_agg_15__ser" => rnd_agg_15__ser::make,
      "rnd_prec_02__ser" => rnd_prec_02__ser::make,
      "rnd_prec_03__to" => rnd_prec_03__to::make,
      "rnd_prec_05__par" => rnd_prec_05__par::make,
      "rnd_prec_06__topar" => rnd_prec_06__topar::make,
      "rnd_prec_08__pari" => rnd_prec_08__pari::make,
      "rnd_prea_02__pari" => rnd_prea_02__pari::make,
      "rnd_prea_05__par" => rnd_prea_05__par::make,
      "rnd_prea_08__ser" => rnd_prea_08__ser::make,
      _ => panic!("no such program variant in this shard: {}", name),
   }
}

fn main() {
   quiet_panics();
   let mut out = Out::open();
   let cases = read_cases();
   let mut i = 0;
   while i < cases.len() {
      let case = &cases[i];
      let m = format!("{}__{}", case["prog"].as_str().unwrap(), case["var"].as_str().unwrap());
      if let Some(g) = case["group"].as_i64() {
         // cases of one group run simultaneously
         let mut grp = vec![];
         while i < cases.len() && cases[i]["group"].as_i64() == Some(g) {
            let m = format!("{}__{}", cases[i]["prog"].as_str().unwrap(), cases[i]["var"].as_str().unwrap());
            grp.push((cases[i].clone(), lookup(&m)));
            i += 1;
         }
         drive_group(&grp, &mut out);
      } else {
         drive(case, &mut out, lookup(&m));
         i += 1;
      }
   }
   out.flush();
}
