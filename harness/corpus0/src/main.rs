#![allow(unused_imports, unused_variables, unused_mut, dead_code, non_snake_case, unused_parens, clippy::all)]
use ascent::lattice::bounded_set::BoundedSet;
use ascent::lattice::constant_propagation::ConstPropagation;
use ascent::lattice::set::Set;
use ascent::lattice::Product;
use ascent::{Dual, Lattice};
use vh_lite::{rows_json, Driven, Value};

use vh_lite::{read_cases, drive, drive_group, quiet_panics, Out};

mod tc_right__ser;
mod tc_left__to;
mod tc_left__redecl;
mod tc_left__str;
mod tc_nonlin__perm1;
mod mutual__par;
mod mutual__src1;
mod mutual__ren;
mod scc_chain__to;
mod scc_chain__strpar;
mod repeated__par;
mod repeated__strpar;
mod three_dyn__ren;
mod conds__ser;
mod conds__src2;
mod conds__permpar;
mod count_up__topar;
mod multi_head__ren;
mod facts__src0;
mod facts__perm2;
mod opt_cols__pari;
mod opt_cols__init;
mod same_gen__pari;
mod same_gen__u64;
mod two_inputs__to;
mod two_inputs__redecl;
mod two_inputs__str;
mod ternary__pari;
mod bound_mix__ser;
mod bound_mix__u64;
mod join_chain__permpar;
mod reach__par;
mod self_join3__par;
mod lag_right__perm2;
mod lag_left__pari;
mod lag_mid__ser;
mod lag_mid__u64;
mod sp_dual__par;
mod sp_dual__src1;
mod sp_dual__ren;
mod longest_capped__par;
mod set_reach__topar;
mod set_reach__init;
mod cp__ser;
mod lex_lat__ser;
mod lat_two_keys__pari;
mod lat_val_bound__pari;
mod count_paths__gen;
mod neg_basic__ser;
mod neg_basic__src0;
mod neg_basic__perm2;
mod agg_depth__ser;
mod agg_lattice__to;
mod neg_rec_after__exp;
mod agg_empty__to;
mod agg_const_args__par;
mod disj__topar;
mod disj__init;
mod disj__exppar;
mod pat_args__pari;
mod multi_head_disj__ser;
mod neg_in_disj__exp;
mod mac_basic__mrt;
mod mac_basic__srcpar;
mod mac_nested__ser;
mod mac_gensym_disj__exp;
mod rnd_core_01__par;
mod rnd_core_04__ser;
mod rnd_core_06__pari;
mod rnd_core_09__par;
mod rnd_core_12__ser;
mod rnd_core_14__pari;
mod rnd_core_17__par;
mod rnd_core_20__ser;
mod rnd_core_22__pari;
mod rnd_core_25__par;
mod rnd_core_28__ser;
mod rnd_core_30__pari;
mod rnd_agg_03__par;
mod rnd_agg_06__ser;
mod rnd_agg_08__pari;
mod rnd_agg_11__par;
mod rnd_agg_14__ser;

fn lookup(name: &str) -> fn() -> Box<dyn Driven> {
   match name {
      "tc_right__ser" => tc_right__ser::make,
      "tc_left__to" => tc_left__to::make,
      "tc_left__redecl" => tc_left__redecl::make,
      "tc_left__str" => tc_left__str::make,
      "tc_nonlin__perm1" => tc_nonlin__perm1::make,
      "mutual__par" => mutual__par::make,
      "mutual__src1" => mutual__src1::make,
      "mutual__ren" => mutual__ren::make,
      "scc_chain__to" => scc_chain__to::make,
      "scc_chain__strpar" => scc_chain__strpar::make,
      "repeated__par" => repeated__par::make,
      "repeated__strpar" => repeated__strpar::make,
      "three_dyn__ren" => three_dyn__ren::make,
      "conds__ser" => conds__ser::make,
      "conds__src2" => conds__src2::make,
      "conds__permpar" => conds__permpar::make,
      "count_up__topar" => count_up__topar::make,
      "multi_head__ren" => multi_head__ren::make,
      "facts__src0" => facts__src0::make,
      "facts__perm2" => facts__perm2::make,
      "opt_cols__pari" => opt_cols__pari::make,
      "opt_cols__init" => opt_cols__init::make,
      "same_gen__pari" => same_gen__pari::make,
      "same_gen__u64" => same_gen__u64::make,
      "two_inputs__to" => two_inputs__to::make,
      "two_inputs__redecl" => two_inputs__redecl::make,
      "two_inputs__str" => two_inputs__str::make,
      "ternary__pari" => ternary__pari::make,
      "bound_mix__ser" => bound_mix__ser::make,
      "bound_mix__u64" => bound_mix__u64::make,
      "join_chain__permpar" => join_chain__permpar::make,
      "reach__par" => reach__par::make,
      "self_join3__par" => self_join3__par::make,
      "lag_right__perm2" => lag_right__perm2::make,
      "lag_left__pari" => lag_left__pari::make,
      "lag_mid__ser" => lag_mid__ser::make,
      "lag_mid__u64" => lag_mid__u64::make,
      "sp_dual__par" => sp_dual__par::make,
      "sp_dual__src1" => sp_dual__src1::make,
      "sp_dual__ren" => sp_dual__ren::make,
      "longest_capped__par" => longest_capped__par::make,
      "set_reach__topar" => set_reach__topar::make,
      "set_reach__init" => set_reach__init::make,
      "cp__ser" => cp__ser::make,
      "lex_lat__ser" => lex_lat__ser::make,
      "lat_two_keys__pari" => lat_two_keys__pari::make,
      "lat_val_bound__pari" => lat_val_bound__pari::make,
      "count_paths__gen" => count_paths__gen::make,
      "neg_basic__ser" => neg_basic__ser::make,
      "neg_basic__src0" => neg_basic__src0::make,
      "neg_basic__perm2" => neg_basic__perm2::make,
      "agg_depth__ser" => agg_depth__ser::make,
      "agg_lattice__to" => agg_lattice__to::make,
      "neg_rec_after__exp" => neg_rec_after__exp::make,
      "agg_empty__to" => agg_empty__to::make,
      "agg_const_args__par" => agg_const_args__par::make,
      "disj__topar" => disj__topar::make,
      "disj__init" => disj__init::make,
      "disj__exppar" => disj__exppar::make,
      "pat_args__pari" => pat_args__pari::make,
      "multi_head_disj__ser" => multi_head_disj__ser::make,
      "neg_in_disj__exp" => neg_in_disj__exp::make,
      "mac_basic__mrt" => mac_basic__mrt::make,
      "mac_basic__srcpar" => mac_basic__srcpar::make,
      "mac_nested__ser" => mac_nested__ser::make,
      "mac_gensym_disj__exp" => mac_gensym_disj__exp::make,
      "rnd_core_01__par" => rnd_core_01__par::make,
      "rnd_core_04__ser" => rnd_core_04__ser::make,
      "rnd_core_06__pari" => rnd_core_06__pari::make,
      "rnd_core_09__par" => rnd_core_09__par::make,
      "rnd_core_12__ser" => rnd_core_12__ser::make,
      "rnd_core_14__pari" => rnd_core_14__pari::make,
      "rnd_core_17__par" => rnd_core_17__par::make,
      "rnd_core_20__ser" => rnd_core_20__ser::make,
      "rnd_core_22__pari" => rnd_core_22__pari::make,
      "rnd_core_25__par" => rnd_core_25__par::make,
      "rnd_core_28__ser" => rnd_core_28__ser::make,
      "rnd_core_30__pari" => rnd_core_30__pari::make,
      "rnd_agg_03__par" => rnd_agg_03__par::make,
      "rnd_agg_06__ser" => rnd_agg_06__ser::make,
      "rnd_agg_08__pari" => rnd_agg_08__pari::make,
      "rnd_agg_11__par" => rnd_agg_11__par::make,
      "rnd_agg_14__ser" => rnd_agg_14__ser::make,
      _ => panic!("no such program variant in this shard: {}", name),
   }
}

fn main() {
   quiet_panics();
   let mut out = Out::open();
   let cases = read_cases();
   let mut i = 0;
   while i < cases.len() {
      let case = &cases[i];
      let m = format!("{}__{}", case["prog"].as_str().unwrap(), case["var"].as_str().unwrap());
      if let Some(g) = case["group"].as_i64() {
         // cases of one group run simultaneously
         let mut grp = vec![];
         while i < cases.len() && cases[i]["group"].as_i64() == Some(g) {
            let m = format!("{}__{}", cases[i]["prog"].as_str().unwrap(), cases[i]["var"].as_str().unwrap());
            grp.push((cases[i].clone(), lookup(&m)));
            i += 1;
         }
         drive_group(&grp, &mut out);
      } else {
         drive(case, &mut out, lookup(&m));
         i += 1;
      }
   }
   out.flush();
}
