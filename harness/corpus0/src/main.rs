#![allow(unused_imports, unused_variables, unused_mut, dead_code, non_snake_case, unused_parens, clippy::all)]
use ascent::lattice::bounded_set::BoundedSet;
use ascent::lattice::constant_propagation::ConstPropagation;
use ascent::lattice::set::Set;
use ascent::lattice::Product;
use ascent::{Dual, Lattice};
use vh_lite::{rows_json, Driven, Value};

use vh_lite::{read_cases, drive, drive_group, quiet_panics, Out};

mod tc_right__ser;
mod tc_left__to;
mod tc_left__srcto;
mod tc_left__ren;
mod tc_nonlin__to;
mod tc_nonlin__strpar;
mod mutual__gen;
mod mutual__runpar;
mod mutual__strpar;
mod scc_chain__ren;
mod consts__ser;
mod repeated__ren;
mod three_dyn__to;
mod three_dyn__strpar;
mod conds__mrt;
mod conds__init;
mod expr_args__par;
mod multi_head__par;
mod facts__ser;
mod facts__src2;
mod facts__perm2;
mod opt_cols__pari;
mod opt_cols__srcred;
mod same_gen__ser;
mod same_gen__permpar;
mod not_reorderable__topar;
mod pre_join_rec__to;
mod two_inputs__pari;
mod two_inputs__src2;
mod two_inputs__perm2;
mod wild__pari;
mod ternary__str;
mod bound_mix__ren;
mod join_chain__perm1;
mod cond_simple_join__par;
mod zero_arity__par;
mod lag_right__to;
mod lag_right__strpar;
mod lag_three__pari;
mod lag_mid__ren;
mod lag_late_delta__to;
mod multi_head_rec__exppar;
mod sp_dual__gen;
mod sp_dual__runpar;
mod sp_weighted__pari;
mod set_reach__ser;
mod set_reach__src0;
mod set_reach__srcpar;
mod cp__pari;
mod lex_dual_lat__pari;
mod lat_two_keys__par;
mod lat_pre_join__par;
mod lat_val_bound__par;
mod lat_input__mrt;
mod lat_input__init;
mod count_paths__run;
mod count_paths__redecl;
mod neg_basic__topar;
mod neg_basic__srcred;
mod neg_basic__permpar;
mod agg_depth__pari;
mod agg_user__ser;
mod agg_bound_mix__ser;
mod agg_empty_rel__ser;
mod agg_const_args__exp;
mod disj__to;
mod disj__srcto;
mod disj__ren;
mod disj_nested__exppar;
mod rep_expr__pari;
mod neg_in_disj__ser;
mod mac_basic__to;
mod mac_basic__srcto;
mod mac_capture__ser;
mod mac_nested__exp;
mod mac_local_names__par;
mod mac_block__exppar;
mod stress_lat__pari;
mod rnd_core_01__par;
mod rnd_core_04__ser;
mod rnd_core_06__pari;
mod rnd_core_09__par;
mod rnd_core_12__ser;
mod rnd_core_14__pari;
mod rnd_core_17__par;
mod rnd_core_20__ser;
mod rnd_core_22__pari;
mod rnd_core_25__par;
mod rnd_core_28__ser;
mod rnd_core_30__pari;
mod rnd_agg_03__par;
mod rnd_agg_06__ser;
mod rnd_agg_08__pari;
mod rnd_agg_11__par;
mod rnd_agg_14__ser;
mod rnd_prec_01__pari;
mod rnd_prec_03__ser;
mod rnd_prec_04__to;
mod rnd_prec_06__par;
mod rnd_prec_07__topar;
mod rnd_prea_01__pari;
mod rnd_prea_04__par;
mod rnd_prea_07__ser;

fn lookup(name: &str) -> fn() -> Box<dyn Driven> {
   match name {
      "tc_right__ser" => tc_right__ser::make,
      "tc_left__to" => tc_left__to::make,
      "tc_left__srcto" => tc_left__srcto::make,
      "tc_left__ren" => tc_left__ren::make,
      "tc_nonlin__to" => tc_nonlin__to::make,
      "tc_nonlin__strpar" => tc_nonlin__strpar::make,
      "mutual__gen" => mutual__gen::make,
      "mutual__runpar" => mutual__runpar::make,
      "mutual__strpar" => mutual__strpar::make,
      "scc_chain__ren" => scc_chain__ren::make,
      "consts__ser" => consts__ser::make,
      "repeated__ren" => repeated__ren::make,
      "three_dyn__to" => three_dyn__to::make,
      "three_dyn__strpar" => three_dyn__strpar::make,
      "conds__mrt" => conds__mrt::make,
      "conds__init" => conds__init::make,
      "expr_args__par" => expr_args__par::make,
      "multi_head__par" => multi_head__par::make,
      "facts__ser" => facts__ser::make,
      "facts__src2" => facts__src2::make,
      "facts__perm2" => facts__perm2::make,
      "opt_cols__pari" => opt_cols__pari::make,
      "opt_cols__srcred" => opt_cols__srcred::make,
      "same_gen__ser" => same_gen__ser::make,
      "same_gen__permpar" => same_gen__permpar::make,
      "not_reorderable__topar" => not_reorderable__topar::make,
      "pre_join_rec__to" => pre_join_rec__to::make,
      "two_inputs__pari" => two_inputs__pari::make,
      "two_inputs__src2" => two_inputs__src2::make,
      "two_inputs__perm2" => two_inputs__perm2::make,
      "wild__pari" => wild__pari::make,
      "ternary__str" => ternary__str::make,
      "bound_mix__ren" => bound_mix__ren::make,
      "join_chain__perm1" => join_chain__perm1::make,
      "cond_simple_join__par" => cond_simple_join__par::make,
      "zero_arity__par" => zero_arity__par::make,
      "lag_right__to" => lag_right__to::make,
      "lag_right__strpar" => lag_right__strpar::make,
      "lag_three__pari" => lag_three__pari::make,
      "lag_mid__ren" => lag_mid__ren::make,
      "lag_late_delta__to" => lag_late_delta__to::make,
      "multi_head_rec__exppar" => multi_head_rec__exppar::make,
      "sp_dual__gen" => sp_dual__gen::make,
      "sp_dual__runpar" => sp_dual__runpar::make,
      "sp_weighted__pari" => sp_weighted__pari::make,
      "set_reach__ser" => set_reach__ser::make,
      "set_reach__src0" => set_reach__src0::make,
      "set_reach__srcpar" => set_reach__srcpar::make,
      "cp__pari" => cp__pari::make,
      "lex_dual_lat__pari" => lex_dual_lat__pari::make,
      "lat_two_keys__par" => lat_two_keys__par::make,
      "lat_pre_join__par" => lat_pre_join__par::make,
      "lat_val_bound__par" => lat_val_bound__par::make,
      "lat_input__mrt" => lat_input__mrt::make,
      "lat_input__init" => lat_input__init::make,
      "count_paths__run" => count_paths__run::make,
      "count_paths__redecl" => count_paths__redecl::make,
      "neg_basic__topar" => neg_basic__topar::make,
      "neg_basic__srcred" => neg_basic__srcred::make,
      "neg_basic__permpar" => neg_basic__permpar::make,
      "agg_depth__pari" => agg_depth__pari::make,
      "agg_user__ser" => agg_user__ser::make,
      "agg_bound_mix__ser" => agg_bound_mix__ser::make,
      "agg_empty_rel__ser" => agg_empty_rel__ser::make,
      "agg_const_args__exp" => agg_const_args__exp::make,
      "disj__to" => disj__to::make,
      "disj__srcto" => disj__srcto::make,
      "disj__ren" => disj__ren::make,
      "disj_nested__exppar" => disj_nested__exppar::make,
      "rep_expr__pari" => rep_expr__pari::make,
      "neg_in_disj__ser" => neg_in_disj__ser::make,
      "mac_basic__to" => mac_basic__to::make,
      "mac_basic__srcto" => mac_basic__srcto::make,
      "mac_capture__ser" => mac_capture__ser::make,
      "mac_nested__exp" => mac_nested__exp::make,
      "mac_local_names__par" => mac_local_names__par::make,
      "mac_block__exppar" => mac_block__exppar::make,
      "stress_lat__pari" => stress_lat__pari::make,
      "rnd_core_01__par" => rnd_core_01__par::make,
      "rnd_core_04__ser" => rnd_core_04__ser::make,
      "rnd_core_06__pari" => rnd_core_06__pari::make,
      "rnd_core_09__par" => rnd_core_09__par::make,
      "rnd_core_12__ser" => rnd_core_12__ser::make,
      "rnd_core_14__pari" => rnd_core_14__pari::make,
      "rnd_core_17__par" => rnd_core_17__par::make,
      "rnd_core_20__ser" => rnd_core_20__ser::make,
      "rnd_core_22__pari" => rnd_core_22__pari::make,
      "rnd_core_25__par" => rnd_core_25__par::make,
      "rnd_core_28__ser" => rnd_core_28__ser::make,
      "rnd_core_30__pari" => rnd_core_30__pari::make,
      "rnd_agg_03__par" => rnd_agg_03__par::make,
      "rnd_agg_06__ser" => rnd_agg_06__ser::make,
      "rnd_agg_08__pari" => rnd_agg_08__pari::make,
      "rnd_agg_11__par" => rnd_agg_11__par::make,
      "rnd_agg_14__ser" => rnd_agg_14__ser::make,
      "rnd_prec_01__pari" => rnd_prec_01__pari::make,
      "rnd_prec_03__ser" => rnd_prec_03__ser::make,
      "rnd_prec_04__to" => rnd_prec_04__to::make,
      "rnd_prec_06__par" => rnd_prec_06__par::make,
      "rnd_prec_07__topar" => rnd_prec_07__topar::make,
      "rnd_prea_01__pari" => rnd_prea_01__pari::make,
      "rnd_prea_04__par" => rnd_prea_04__par::make,
      "rnd_prea_07__ser" => rnd_prea_07__ser::make,
      _ => panic!("no such program variant in this shard: {}", name),
   }
}

fn main() {
   quiet_panics();
   let mut out = Out::open();
   let cases = read_cases();
   let mut i = 0;
   while i < cases.len() {
      let case = &cases[i];
      let m = format!("{}__{}", case["prog"].as_str().unwrap(), case["var"].as_str().unwrap());
      if let Some(g) = case["group"].as_i64() {
         // cases of one group run simultaneously
         let mut grp = vec![];
         while i < cases.len() && cases[i]["group"].as_i64() == Some(g) {
            let m = format!("{}__{}", cases[i]["prog"].as_str().unwrap(), cases[i]["var"].as_str().unwrap());
            grp.push((cases[i].clone(), lookup(&m)));
            i += 1;
         }
         drive_group(&grp, &mut out);
      } else {
         drive(case, &mut out, lookup(&m));
         i += 1;
      }
   }
   out.flush();
}
