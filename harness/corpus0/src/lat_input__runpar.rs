#![allow(unused_imports, unused_variables, unused_mut, dead_code, non_snake_case, unused_parens, clippy::all)]
use ascent::lattice::bounded_set::BoundedSet;
use ascent::lattice::constant_propagation::ConstPropagation;
use ascent::lattice::set::Set;
use ascent::lattice::Product;
use ascent::{Dual, Lattice};
use vh_lite::{rows_json, Driven, Value};
#[derive(Default)]
pub struct D {
   e: Vec<(i32, i32,)>,
   best: Vec<(i32, Dual<i32>,)>,
   reached: Vec<(i32,)>,
   close: Vec<(i32,)>,
   out: Option<Value>,
}
impl Driven for D {
   fn push(&mut self, rel: &str, row: &Value) {
      match rel {
         "e" => { self.e.push((row[0].as_i64().unwrap() as i32, row[1].as_i64().unwrap() as i32,)); },
         "best" => { self.best.push((row[0].as_i64().unwrap() as i32, Dual(row[1].as_i64().unwrap() as i32),)); },
         "reached" => { self.reached.push((row[0].as_i64().unwrap() as i32,)); },
         "close" => { self.close.push((row[0].as_i64().unwrap() as i32,)); },
         _ => panic!("verif harness: unknown relation {}", rel),
      }
   }
   fn run(&mut self) {
      let e_init = self.e.clone();
      let best_init = self.best.clone();
      let reached_init = self.reached.clone();
      let close_init = self.close.clone();
      let res = ascent::ascent_run_par! {
         relation e(i32, i32) = e_init.into_iter().collect();
         lattice best(i32, Dual<i32>) = best_init.into_iter().map(std::sync::RwLock::new).collect();
         relation reached(i32) = reached_init.into_iter().collect();
         relation close(i32) = close_init.into_iter().collect();
         best(y, Dual((((*l)).0 + 1))) <-- best(x, l), e(x, y);
         reached(x) <-- best(x, _);
         close(x) <-- best(x, l), if (((*l)).0 <= 1);
      };
      let mut m: Vec<(String, Value)> = vec![];
      m.push(("e".to_string(), rows_json(res.e.iter())));
      let __v: Vec<(i32, Dual<i32>,)> = res.best.iter().map(|r| r.read().unwrap().clone()).collect();
      m.push(("best".to_string(), rows_json(__v.iter())));
      m.push(("reached".to_string(), rows_json(res.reached.iter())));
      m.push(("close".to_string(), rows_json(res.close.iter())));
      self.out = Some(Value::Obj(m));
   }
   fn dump(&self) -> Value { self.out.clone().unwrap_or(Value::Null) }
}
pub fn make() -> Box<dyn Driven> { Box::new(D::default()) }
