#![allow(unused_imports, unused_variables, unused_mut, dead_code, non_snake_case, unused_parens, clippy::all)]
use ascent::lattice::bounded_set::BoundedSet;
use ascent::lattice::constant_propagation::ConstPropagation;
use ascent::lattice::set::Set;
use ascent::lattice::Product;
use ascent::{Dual, Lattice};
use vh_lite::{rows_json, Driven, Value};

use vh_lite::{read_cases, drive, drive_group, quiet_panics, Out};

mod eqrel_order__ser;
mod eqrel_order__par;
mod eqrel_order__pari;
mod eqrel_bin__ser;
mod eqrel_bin__par;
mod eqrel_bin__pari;
mod eqrel_tern__ser;
mod eqrel_only010__ser;
mod eqrel_only001__ser;
mod eqrel_only011__ser;
mod eqrel_plain__ser;
mod eqrel_plain__par;
mod eqrel_plain__pari;
mod eqrel_plain__perm1;
mod eqrel_plain__perm2;
mod eqrel_plain__ren;
mod eqrel_plain__permpar;

fn lookup(name: &str) -> fn() -> Box<dyn Driven> {
   match name {
      "eqrel_order__ser" => eqrel_order__ser::make,
      "eqrel_order__par" => eqrel_order__par::make,
      "eqrel_order__pari" => eqrel_order__pari::make,
      "eqrel_bin__ser" => eqrel_bin__ser::make,
      "eqrel_bin__par" => eqrel_bin__par::make,
      "eqrel_bin__pari" => eqrel_bin__pari::make,
      "eqrel_tern__ser" => eqrel_tern__ser::make,
      "eqrel_only010__ser" => eqrel_only010__ser::make,
      "eqrel_only001__ser" => eqrel_only001__ser::make,
      "eqrel_only011__ser" => eqrel_only011__ser::make,
      "eqrel_plain__ser" => eqrel_plain__ser::make,
      "eqrel_plain__par" => eqrel_plain__par::make,
      "eqrel_plain__pari" => eqrel_plain__pari::make,
      "eqrel_plain__perm1" => eqrel_plain__perm1::make,
      "eqrel_plain__perm2" => eqrel_plain__perm2::make,
      "eqrel_plain__ren" => eqrel_plain__ren::make,
      "eqrel_plain__permpar" => eqrel_plain__permpar::make,
      _ => panic!("no such program variant in this shard: {}", name),
   }
}

fn main() {
   quiet_panics();
   let mut out = Out::open();
   let cases = read_cases();
   let mut i = 0;
   while i < cases.len() {
      let case = &cases[i];
      let m = format!("{}__{}", case["prog"].as_str().unwrap(), case["var"].as_str().unwrap());
      if let Some(g) = case["group"].as_i64() {
         // cases of one group run simultaneously
         let mut grp = vec![];
         while i < cases.len() && cases[i]["group"].as_i64() == Some(g) {
            let m = format!("{}__{}", cases[i]["prog"].as_str().unwrap(), cases[i]["var"].as_str().unwrap());
            grp.push((cases[i].clone(), lookup(&m)));
            i += 1;
         }
         drive_group(&grp, &mut out);
      } else {
         drive(case, &mut out, lookup(&m));
         i += 1;
      }
   }
   out.flush();
}
