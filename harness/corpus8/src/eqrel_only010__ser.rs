#![allow(unused_imports, unused_variables, unused_mut, dead_code, non_snake_case, unused_parens, clippy::all)]
use ascent::lattice::bounded_set::BoundedSet;
use ascent::lattice::constant_propagation::ConstPropagation;
use ascent::lattice::set::Set;
use ascent::lattice::Product;
use ascent::{Dual, Lattice};
use vh_lite::{rows_json, Driven, Value};
ascent::ascent! {
   pub struct Prog;
   relation sched(i32, i32, i32, i32);
   relation never();
   relation step(i32);
   relation dom(i32);
   #[ds(ascent_byods_rels::eqrel)] relation r(i32, i32, i32);
   relation i010(i32, i32, i32);
   relation o010(i32, i32, i32);
   step(0);
   step(((*i) + 1)) <-- step(i), if ((*i) < 2);
   dom(x) <-- for x in (0)..(3);
   r(k, x, y) <-- step(i), sched(i, k, x, y);
   i010(k, x, y) <-- dom(x), r(k, x, y);
   r(k, x, y) <-- i010(k, x, y), never();
   o010(k, x, y) <-- dom(x), r(k, x, y);
}

pub struct D(Prog);
impl Driven for D {
   fn push(&mut self, rel: &str, row: &Value) {
      match rel {
         "sched" => { self.0.sched.push((row[0].as_i64().unwrap() as i32, row[1].as_i64().unwrap() as i32, row[2].as_i64().unwrap() as i32, row[3].as_i64().unwrap() as i32,)); },
         "never" => { self.0.never.push(()); },
         "step" => { self.0.step.push((row[0].as_i64().unwrap() as i32,)); },
         "dom" => { self.0.dom.push((row[0].as_i64().unwrap() as i32,)); },
         "i010" => { self.0.i010.push((row[0].as_i64().unwrap() as i32, row[1].as_i64().unwrap() as i32, row[2].as_i64().unwrap() as i32,)); },
         "o010" => { self.0.o010.push((row[0].as_i64().unwrap() as i32, row[1].as_i64().unwrap() as i32, row[2].as_i64().unwrap() as i32,)); },
         _ => panic!("verif harness: unknown relation {}", rel),
      }
   }
   fn clear(&mut self, rel: &str) {
      match rel {
         "sched" => { self.0.sched = Default::default(); },
         "never" => { self.0.never = Default::default(); },
         "step" => { self.0.step = Default::default(); },
         "dom" => { self.0.dom = Default::default(); },
         "i010" => { self.0.i010 = Default::default(); },
         "o010" => { self.0.o010 = Default::default(); },
         _ => panic!("verif harness: unknown relation {}", rel),
      }
   }
   fn run(&mut self) { self.0.run(); }
   fn dump(&self) -> Value {
      let mut m: Vec<(String, Value)> = vec![];
      m.push(("sched".to_string(), rows_json(self.0.sched.iter())));
      m.push(("never".to_string(), rows_json(self.0.never.iter())));
      m.push(("step".to_string(), rows_json(self.0.step.iter())));
      m.push(("dom".to_string(), rows_json(self.0.dom.iter())));
      m.push(("i010".to_string(), rows_json(self.0.i010.iter())));
      m.push(("o010".to_string(), rows_json(self.0.o010.iter())));
      Value::Obj(m)
   }
   fn summary(&self) -> String { Prog::summary().to_string() }
}
pub fn make() -> Box<dyn Driven> { Box::new(D(Prog::default())) }
