#![allow(unused_imports, unused_variables, unused_mut, dead_code, non_snake_case, unused_parens, clippy::all)]
use ascent::lattice::bounded_set::BoundedSet;
use ascent::lattice::constant_propagation::ConstPropagation;
use ascent::lattice::set::Set;
use ascent::lattice::Product;
use ascent::{Dual, Lattice};
use vh_lite::{rows_json, Driven, Value};
ascent::ascent! {
   pub struct Prog;
   relation sched(i32, i32, i32);
   relation never();
   relation step(i32);
   #[ds(ascent_byods_rels::eqrel)] relation r(i32, i32);
   relation iff(i32, i32);
   relation ibf(i32, i32);
   relation off(i32, i32);
   step(0);
   step(((*i) + 1)) <-- step(i), if ((*i) < 6);
   step(0) <-- r(_, _), never();
   r(x, y) <-- step(i), sched(i, x, y);
   iff(x, y) <-- r(x, y);
   r(x, y) <-- iff(x, y), never();
   ibf(x, y) <-- sched(_, x, _), r(x, y);
   r(x, y) <-- ibf(x, y), never();
   off(x, y) <-- r(x, y);
}

pub struct D(Prog);
impl Driven for D {
   fn push(&mut self, rel: &str, row: &Value) {
      match rel {
         "sched" => { self.0.sched.push((row[0].as_i64().unwrap() as i32, row[1].as_i64().unwrap() as i32, row[2].as_i64().unwrap() as i32,)); },
         "never" => { self.0.never.push(()); },
         "step" => { self.0.step.push((row[0].as_i64().unwrap() as i32,)); },
         "iff" => { self.0.iff.push((row[0].as_i64().unwrap() as i32, row[1].as_i64().unwrap() as i32,)); },
         "ibf" => { self.0.ibf.push((row[0].as_i64().unwrap() as i32, row[1].as_i64().unwrap() as i32,)); },
         "off" => { self.0.off.push((row[0].as_i64().unwrap() as i32, row[1].as_i64().unwrap() as i32,)); },
         _ => panic!("verif harness: unknown relation {}", rel),
      }
   }
   fn clear(&mut self, rel: &str) {
      match rel {
         "sched" => { self.0.sched = Default::default(); },
         "never" => { self.0.never = Default::default(); },
         "step" => { self.0.step = Default::default(); },
         "iff" => { self.0.iff = Default::default(); },
         "ibf" => { self.0.ibf = Default::default(); },
         "off" => { self.0.off = Default::default(); },
         _ => panic!("verif harness: unknown relation {}", rel),
      }
   }
   fn run(&mut self) { self.0.run(); }
   fn dump(&self) -> Value {
      let mut m: Vec<(String, Value)> = vec![];
      m.push(("sched".to_string(), rows_json(self.0.sched.iter())));
      m.push(("never".to_string(), rows_json(self.0.never.iter())));
      m.push(("step".to_string(), rows_json(self.0.step.iter())));
      m.push(("iff".to_string(), rows_json(self.0.iff.iter())));
      m.push(("ibf".to_string(), rows_json(self.0.ibf.iter())));
      m.push(("off".to_string(), rows_json(self.0.off.iter())));
      Value::Obj(m)
   }
   fn summary(&self) -> String { Prog::summary().to_string() }
}
pub fn make() -> Box<dyn Driven> { Box::new(D(Prog::default())) }
