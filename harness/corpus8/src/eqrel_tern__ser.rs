#![allow(unused_imports, unused_variables, unused_mut, dead_code, non_snake_case, unused_parens, clippy::all)]
use ascent::lattice::bounded_set::BoundedSet;
use ascent::lattice::constant_propagation::ConstPropagation;
use ascent::lattice::set::Set;
use ascent::lattice::Product;
use ascent::{Dual, Lattice};
use vh_lite::{rows_json, Driven, Value};
ascent::ascent! {
   pub struct Prog;
   relation sched(i32, i32, i32, i32);
   relation never();
   relation step(i32);
   relation dom(i32);
   relation kd(i32);
   #[ds(ascent_byods_rels::eqrel)] relation r(i32, i32, i32);
   relation i000(i32, i32, i32);
   relation o000(i32, i32, i32);
   relation i100(i32, i32, i32);
   relation o100(i32, i32, i32);
   relation i010(i32, i32, i32);
   relation o010(i32, i32, i32);
   relation i001(i32, i32, i32);
   relation o001(i32, i32, i32);
   relation i110(i32, i32, i32);
   relation o110(i32, i32, i32);
   relation i101(i32, i32, i32);
   relation o101(i32, i32, i32);
   relation i011(i32, i32, i32);
   relation o011(i32, i32, i32);
   relation i111(i32, i32, i32);
   relation o111(i32, i32, i32);
   relation nr(i32, i32, i32);
   relation cnt(i32, i32);
   relation indeg(i32, i32, i32);
   step(0);
   step(((*i) + 1)) <-- step(i), if ((*i) < 2);
   step(0) <-- r(_, _, _), never();
   dom(x) <-- for x in (0)..(3);
   kd(k) <-- for k in (0)..(2);
   r(k, x, y) <-- step(i), sched(i, k, x, y);
   r(k, x, y) <-- step(i), sched(i, k, x, y), dom(x);
   i000(k, x, y) <-- r(k, x, y);
   r(k, x, y) <-- i000(k, x, y), never();
   o000(k, x, y) <-- r(k, x, y);
   i100(k, x, y) <-- kd(k), r(k, x, y);
   r(k, x, y) <-- i100(k, x, y), never();
   o100(k, x, y) <-- kd(k), r(k, x, y);
   i010(k, x, y) <-- dom(x), r(k, x, y);
   r(k, x, y) <-- i010(k, x, y), never();
   o010(k, x, y) <-- dom(x), r(k, x, y);
   i001(k, x, y) <-- dom(y), r(k, x, y);
   r(k, x, y) <-- i001(k, x, y), never();
   o001(k, x, y) <-- dom(y), r(k, x, y);
   i110(k, x, y) <-- kd(k), dom(x), r(k, x, y);
   r(k, x, y) <-- i110(k, x, y), never();
   o110(k, x, y) <-- kd(k), dom(x), r(k, x, y);
   i101(k, x, y) <-- kd(k), dom(y), r(k, x, y);
   r(k, x, y) <-- i101(k, x, y), never();
   o101(k, x, y) <-- kd(k), dom(y), r(k, x, y);
   i011(k, x, y) <-- dom(x), dom(y), r(k, x, y);
   r(k, x, y) <-- i011(k, x, y), never();
   o011(k, x, y) <-- dom(x), dom(y), r(k, x, y);
   i111(k, x, y) <-- kd(k), dom(x), dom(y), r(k, x, y);
   r(k, x, y) <-- i111(k, x, y), never();
   o111(k, x, y) <-- kd(k), dom(x), dom(y), r(k, x, y);
   nr(k, x, y) <-- kd(k), dom(x), dom(y), !r(k, x, y);
   cnt(k, (n as i32)) <-- kd(k), agg n = ascent::aggregators::count() in r(k, _, _);
   indeg(k, y, (n as i32)) <-- kd(k), dom(y), agg n = ascent::aggregators::count() in r(k, _, y);
}

pub struct D(Prog);
impl Driven for D {
   fn push(&mut self, rel: &str, row: &Value) {
      match rel {
         "sched" => { self.0.sched.push((row[0].as_i64().unwrap() as i32, row[1].as_i64().unwrap() as i32, row[2].as_i64().unwrap() as i32, row[3].as_i64().unwrap() as i32,)); },
         "never" => { self.0.never.push(()); },
         "step" => { self.0.step.push((row[0].as_i64().unwrap() as i32,)); },
         "dom" => { self.0.dom.push((row[0].as_i64().unwrap() as i32,)); },
         "kd" => { self.0.kd.push((row[0].as_i64().unwrap() as i32,)); },
         "i000" => { self.0.i000.push((row[0].as_i64().unwrap() as i32, row[1].as_i64().unwrap() as i32, row[2].as_i64().unwrap() as i32,)); },
         "o000" => { self.0.o000.push((row[0].as_i64().unwrap() as i32, row[1].as_i64().unwrap() as i32, row[2].as_i64().unwrap() as i32,)); },
         "i100" => { self.0.i100.push((row[0].as_i64().unwrap() as i32, row[1].as_i64().unwrap() as i32, row[2].as_i64().unwrap() as i32,)); },
         "o100" => { self.0.o100.push((row[0].as_i64().unwrap() as i32, row[1].as_i64().unwrap() as i32, row[2].as_i64().unwrap() as i32,)); },
         "i010" => { self.0.i010.push((row[0].as_i64().unwrap() as i32, row[1].as_i64().unwrap() as i32, row[2].as_i64().unwrap() as i32,)); },
         "o010" => { self.0.o010.push((row[0].as_i64().unwrap() as i32, row[1].as_i64().unwrap() as i32, row[2].as_i64().unwrap() as i32,)); },
         "i001" => { self.0.i001.push((row[0].as_i64().unwrap() as i32, row[1].as_i64().unwrap() as i32, row[2].as_i64().unwrap() as i32,)); },
         "o001" => { self.0.o001.push((row[0].as_i64().unwrap() as i32, row[1].as_i64().unwrap() as i32, row[2].as_i64().unwrap() as i32,)); },
         "i110" => { self.0.i110.push((row[0].as_i64().unwrap() as i32, row[1].as_i64().unwrap() as i32, row[2].as_i64().unwrap() as i32,)); },
         "o110" => { self.0.o110.push((row[0].as_i64().unwrap() as i32, row[1].as_i64().unwrap() as i32, row[2].as_i64().unwrap() as i32,)); },
         "i101" => { self.0.i101.push((row[0].as_i64().unwrap() as i32, row[1].as_i64().unwrap() as i32, row[2].as_i64().unwrap() as i32,)); },
         "o101" => { self.0.o101.push((row[0].as_i64().unwrap() as i32, row[1].as_i64().unwrap() as i32, row[2].as_i64().unwrap() as i32,)); },
         "i011" => { self.0.i011.push((row[0].as_i64().unwrap() as i32, row[1].as_i64().unwrap() as i32, row[2].as_i64().unwrap() as i32,)); },
         "o011" => { self.0.o011.push((row[0].as_i64().unwrap() as i32, row[1].as_i64().unwrap() as i32, row[2].as_i64().unwrap() as i32,)); },
         "i111" => { self.0.i111.push((row[0].as_i64().unwrap() as i32, row[1].as_i64().unwrap() as i32, row[2].as_i64().unwrap() as i32,)); },
         "o111" => { self.0.o111.push((row[0].as_i64().unwrap() as i32, row[1].as_i64().unwrap() as i32, row[2].as_i64().unwrap() as i32,)); },
         "nr" => { self.0.nr.push((row[0].as_i64().unwrap() as i32, row[1].as_i64().unwrap() as i32, row[2].as_i64().unwrap() as i32,)); },
         "cnt" => { self.0.cnt.push((row[0].as_i64().unwrap() as i32, row[1].as_i64().unwrap() as i32,)); },
         "indeg" => { self.0.indeg.push((row[0].as_i64().unwrap() as i32, row[1].as_i64().unwrap() as i32, row[2].as_i64().unwrap() as i32,)); },
         _ => panic!("verif harness: unknown relation {}", rel),
      }
   }
   fn clear(&mut self, rel: &str) {
      match rel {
         "sched" => { self.0.sched = Default::default(); },
         "never" => { self.0.never = Default::default(); },
         "step" => { self.0.step = Default::default(); },
         "dom" => { self.0.dom = Default::default(); },
         "kd" => { self.0.kd = Default::default(); },
         "i000" => { self.0.i000 = Default::default(); },
         "o000" => { self.0.o000 = Default::default(); },
         "i100" => { self.0.i100 = Default::default(); },
         "o100" => { self.0.o100 = Default::default(); },
         "i010" => { self.0.i010 = Default::default(); },
         "o010" => { self.0.o010 = Default::default(); },
         "i001" => { self.0.i001 = Default::default(); },
         "o001" => { self.0.o001 = Default::default(); },
         "i110" => { self.0.i110 = Default::default(); },
         "o110" => { self.0.o110 = Default::default(); },
         "i101" => { self.0.i101 = Default::default(); },
         "o101" => { self.0.o101 = Default::default(); },
         "i011" => { self.0.i011 = Default::default(); },
         "o011" => { self.0.o011 = Default::default(); },
         "i111" => { self.0.i111 = Default::default(); },
         "o111" => { self.0.o111 = Default::default(); },
         "nr" => { self.0.nr = Default::default(); },
         "cnt" => { self.0.cnt = Default::default(); },
         "indeg" => { self.0.indeg = Default::default(); },
         _ => panic!("verif harness: unknown relation {}", rel),
      }
   }
   fn run(&mut self) { self.0.run(); }
   fn dump(&self) -> Value {
      let mut m: Vec<(String, Value)> = vec![];
      m.push(("sched".to_string(), rows_json(self.0.sched.iter())));
      m.push(("never".to_string(), rows_json(self.0.never.iter())));
      m.push(("step".to_string(), rows_json(self.0.step.iter())));
      m.push(("dom".to_string(), rows_json(self.0.dom.iter())));
      m.push(("kd".to_string(), rows_json(self.0.kd.iter())));
      m.push(("i000".to_string(), rows_json(self.0.i000.iter())));
      m.push(("o000".to_string(), rows_json(self.0.o000.iter())));
      m.push(("i100".to_string(), rows_json(self.0.i100.iter())));
      m.push(("o100".to_string(), rows_json(self.0.o100.iter())));
      m.push(("i010".to_string(), rows_json(self.0.i010.iter())));
      m.push(("o010".to_string(), rows_json(self.0.o010.iter())));
      m.push(("i001".to_string(), rows_json(self.0.i001.iter())));
      m.push(("o001".to_string(), rows_json(self.0.o001.iter())));
      m.push(("i110".to_string(), rows_json(self.0.i110.iter())));
      m.push(("o110".to_string(), rows_json(self.0.o110.iter())));
      m.push(("i101".to_string(), rows_json(self.0.i101.iter())));
      m.push(("o101".to_string(), rows_json(self.0.o101.iter())));
      m.push(("i011".to_string(), rows_json(self.0.i011.iter())));
      m.push(("o011".to_string(), rows_json(self.0.o011.iter())));
      m.push(("i111".to_string(), rows_json(self.0.i111.iter())));
      m.push(("o111".to_string(), rows_json(self.0.o111.iter())));
      m.push(("nr".to_string(), rows_json(self.0.nr.iter())));
      m.push(("cnt".to_string(), rows_json(self.0.cnt.iter())));
      m.push(("indeg".to_string(), rows_json(self.0.indeg.iter())));
      Value::Obj(m)
   }
   fn summary(&self) -> String { Prog::summary().to_string() }
}
pub fn make() -> Box<dyn Driven> { Box::new(D(Prog::default())) }
