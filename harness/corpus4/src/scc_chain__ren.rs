#![allow(unused_imports, unused_variables, unused_mut, dead_code, non_snake_case, unused_parens, clippy::all)]
use ascent::lattice::bounded_set::BoundedSet;
use ascent::lattice::constant_propagation::ConstPropagation;
use ascent::lattice::set::Set;
use ascent::lattice::Product;
use ascent::{Dual, Lattice};
use vh_lite::{rows_json, Driven, Value};
ascent::ascent! {
   pub struct Prog;
   relation e_rn(i32, i32);
   relation p_rn(i32, i32);
   relation q_rn(i32, i32);
   relation r_rn(i32);
   p_rn(v_x_q, v_y_q) <-- e_rn(v_x_q, v_y_q);
   p_rn(v_x_q, v_z_q) <-- e_rn(v_x_q, v_y_q), p_rn(v_y_q, v_z_q);
   q_rn(v_x_q, v_y_q) <-- p_rn(v_x_q, v_y_q), p_rn(v_y_q, v_x_q);
   r_rn(v_x_q) <-- q_rn(v_x_q, _);
}

pub struct D(Prog);
impl Driven for D {
   fn push(&mut self, rel: &str, row: &Value) {
      match rel {
         "e_rn" => { self.0.e_rn.push((row[0].as_i64().unwrap() as i32, row[1].as_i64().unwrap() as i32,)); },
         "p_rn" => { self.0.p_rn.push((row[0].as_i64().unwrap() as i32, row[1].as_i64().unwrap() as i32,)); },
         "q_rn" => { self.0.q_rn.push((row[0].as_i64().unwrap() as i32, row[1].as_i64().unwrap() as i32,)); },
         "r_rn" => { self.0.r_rn.push((row[0].as_i64().unwrap() as i32,)); },
         _ => panic!("verif harness: unknown relation {}", rel),
      }
   }
   fn clear(&mut self, rel: &str) {
      match rel {
         "e_rn" => { self.0.e_rn = Default::default(); },
         "p_rn" => { self.0.p_rn = Default::default(); },
         "q_rn" => { self.0.q_rn = Default::default(); },
         "r_rn" => { self.0.r_rn = Default::default(); },
         _ => panic!("verif harness: unknown relation {}", rel),
      }
   }
   fn run(&mut self) { self.0.run(); }
   fn dump(&self) -> Value {
      let mut m: Vec<(String, Value)> = vec![];
      m.push(("e_rn".to_string(), rows_json(self.0.e_rn.iter())));
      m.push(("p_rn".to_string(), rows_json(self.0.p_rn.iter())));
      m.push(("q_rn".to_string(), rows_json(self.0.q_rn.iter())));
      m.push(("r_rn".to_string(), rows_json(self.0.r_rn.iter())));
      Value::Obj(m)
   }
   fn summary(&self) -> String { Prog::summary().to_string() }
}
pub fn make() -> Box<dyn Driven> { Box::new(D(Prog::default())) }
