#![allow(unused_imports, unused_variables, unused_mut, dead_code, non_snake_case, unused_parens, clippy::all)]
use ascent::lattice::bounded_set::BoundedSet;
use ascent::lattice::constant_propagation::ConstPropagation;
use ascent::lattice::set::Set;
use ascent::lattice::Product;
use ascent::{Dual, Lattice};
use vh_lite::{rows_json, Driven, Value};

use vh_lite::{read_cases, drive, drive_group, quiet_panics, Out};

mod tc_right__topar;
mod tc_left__gen;
mod tc_left__srcpar;
mod tc_nonlin__ser;
mod tc_nonlin__permpar;
mod mutual__topar;
mod mutual__redecl;
mod mutual__str;
mod scc_chain__perm1;
mod diamond__par;
mod repeated__perm1;
mod three_dyn__par;
mod three_dyn__str;
mod conds__pari;
mod conds__redecl;
mod expr_args__ser;
mod multi_head__ser;
mod multi_head__permpar;
mod facts__src1;
mod facts__perm2;
mod opt_cols__pari;
mod opt_cols__redecl;
mod same_gen__par;
mod same_gen__str;
mod two_inputs__pari;
mod two_inputs__src2;
mod two_inputs__ren;
mod ternary__ser;
mod ternary__u64;
mod bound_mix__permpar;
mod join_chain__perm2;
mod cond_simple_join__pari;
mod zero_arity__pari;
mod lag_right__topar;
mod lag_left__ser;
mod lag_three__to;
mod lag_mid__permpar;
mod lag_late_delta__topar;
mod sp_dual__ser;
mod sp_dual__src0;
mod sp_dual__perm1;
mod sp_weighted__topar;
mod set_reach__pari;
mod set_reach__src2;
mod bset__pari;
mod opt_lat__ser;
mod bool_lat__pari;
mod lat_multi_improve__topar;
mod lat_input__topar;
mod lat_input__redecl;
mod count_paths__topar;
mod count_paths__redecl;
mod neg_basic__topar;
mod neg_basic__redecl;
mod neg_basic__exp;
mod agg_depth__to;
mod agg_user__par;
mod agg_bound_mix__par;
mod agg_empty_rel__par;
mod agg_const_args__exppar;
mod disj__gen;
mod disj__srcpar;
mod disj_nested__par;
mod pat_args__exppar;
mod multi_head_disj__pari;
mod mac_basic__ser;
mod mac_basic__src0;
mod mac_basic__exp;
mod mac_nested__par;
mod mac_gensym_disj__exppar;
mod rnd_core_01__pari;
mod rnd_core_04__par;
mod rnd_core_07__ser;
mod rnd_core_09__pari;
mod rnd_core_12__par;
mod rnd_core_15__ser;
mod rnd_core_17__pari;
mod rnd_core_20__par;
mod rnd_core_23__ser;
mod rnd_core_25__pari;
mod rnd_core_28__par;
mod rnd_agg_01__ser;
mod rnd_agg_03__pari;
mod rnd_agg_06__par;
mod rnd_agg_09__ser;
mod rnd_agg_11__pari;
mod rnd_agg_14__par;

fn lookup(name: &str) -> fn() -> Box<dyn Driven> {
   match name {
      "tc_right__topar" => tc_right__topar::make,
      "tc_left__gen" => tc_left__gen::make,
      "tc_left__srcpar" => tc_left__srcpar::make,
      "tc_nonlin__ser" => tc_nonlin__ser::make,
      "tc_nonlin__permpar" => tc_nonlin__permpar::make,
      "mutual__topar" => mutual__topar::make,
      "mutual__redecl" => mutual__redecl::make,
      "mutual__str" => mutual__str::make,
      "scc_chain__perm1" => scc_chain__perm1::make,
      "diamond__par" => diamond__par::make,
      "repeated__perm1" => repeated__perm1::make,
      "three_dyn__par" => three_dyn__par::make,
      "three_dyn__str" => three_dyn__str::make,
      "conds__pari" => conds__pari::make,
      "conds__redecl" => conds__redecl::make,
      "expr_args__ser" => expr_args__ser::make,
      "multi_head__ser" => multi_head__ser::make,
      "multi_head__permpar" => multi_head__permpar::make,
      "facts__src1" => facts__src1::make,
      "facts__perm2" => facts__perm2::make,
      "opt_cols__pari" => opt_cols__pari::make,
      "opt_cols__redecl" => opt_cols__redecl::make,
      "same_gen__par" => same_gen__par::make,
      "same_gen__str" => same_gen__str::make,
      "two_inputs__pari" => two_inputs__pari::make,
      "two_inputs__src2" => two_inputs__src2::make,
      "two_inputs__ren" => two_inputs__ren::make,
      "ternary__ser" => ternary__ser::make,
      "ternary__u64" => ternary__u64::make,
      "bound_mix__permpar" => bound_mix__permpar::make,
      "join_chain__perm2" => join_chain__perm2::make,
      "cond_simple_join__pari" => cond_simple_join__pari::make,
      "zero_arity__pari" => zero_arity__pari::make,
      "lag_right__topar" => lag_right__topar::make,
      "lag_left__ser" => lag_left__ser::make,
      "lag_three__to" => lag_three__to::make,
      "lag_mid__permpar" => lag_mid__permpar::make,
      "lag_late_delta__topar" => lag_late_delta__topar::make,
      "sp_dual__ser" => sp_dual__ser::make,
      "sp_dual__src0" => sp_dual__src0::make,
      "sp_dual__perm1" => sp_dual__perm1::make,
      "sp_weighted__topar" => sp_weighted__topar::make,
      "set_reach__pari" => set_reach__pari::make,
      "set_reach__src2" => set_reach__src2::make,
      "bset__pari" => bset__pari::make,
      "opt_lat__ser" => opt_lat__ser::make,
      "bool_lat__pari" => bool_lat__pari::make,
      "lat_multi_improve__topar" => lat_multi_improve__topar::make,
      "lat_input__topar" => lat_input__topar::make,
      "lat_input__redecl" => lat_input__redecl::make,
      "count_paths__topar" => count_paths__topar::make,
      "count_paths__redecl" => count_paths__redecl::make,
      "neg_basic__topar" => neg_basic__topar::make,
      "neg_basic__redecl" => neg_basic__redecl::make,
      "neg_basic__exp" => neg_basic__exp::make,
      "agg_depth__to" => agg_depth__to::make,
      "agg_user__par" => agg_user__par::make,
      "agg_bound_mix__par" => agg_bound_mix__par::make,
      "agg_empty_rel__par" => agg_empty_rel__par::make,
      "agg_const_args__exppar" => agg_const_args__exppar::make,
      "disj__gen" => disj__gen::make,
      "disj__srcpar" => disj__srcpar::make,
      "disj_nested__par" => disj_nested__par::make,
      "pat_args__exppar" => pat_args__exppar::make,
      "multi_head_disj__pari" => multi_head_disj__pari::make,
      "mac_basic__ser" => mac_basic__ser::make,
      "mac_basic__src0" => mac_basic__src0::make,
      "mac_basic__exp" => mac_basic__exp::make,
      "mac_nested__par" => mac_nested__par::make,
      "mac_gensym_disj__exppar" => mac_gensym_disj__exppar::make,
      "rnd_core_01__pari" => rnd_core_01__pari::make,
      "rnd_core_04__par" => rnd_core_04__par::make,
      "rnd_core_07__ser" => rnd_core_07__ser::make,
      "rnd_core_09__pari" => rnd_core_09__pari::make,
      "rnd_core_12__par" => rnd_core_12__par::make,
      "rnd_core_15__ser" => rnd_core_15__ser::make,
      "rnd_core_17__pari" => rnd_core_17__pari::make,
      "rnd_core_20__par" => rnd_core_20__par::make,
      "rnd_core_23__ser" => rnd_core_23__ser::make,
      "rnd_core_25__pari" => rnd_core_25__pari::make,
      "rnd_core_28__par" => rnd_core_28__par::make,
      "rnd_agg_01__ser" => rnd_agg_01__ser::make,
      "rnd_agg_03__pari" => rnd_agg_03__pari::make,
      "rnd_agg_06__par" => rnd_agg_06__par::make,
      "rnd_agg_09__ser" => rnd_agg_09__ser::make,
      "rnd_agg_11__pari" => rnd_agg_11__pari::make,
      "rnd_agg_14__par" => rnd_agg_14__par::make,
      _ => panic!("no such program variant in this shard: {}", name),
   }
}

fn main() {
   quiet_panics();
   let mut out = Out::open();
   let cases = read_cases();
   let mut i = 0;
   while i < cases.len() {
      let case = &cases[i];
      let m = format!("{}__{}", case["prog"].as_str().unwrap(), case["var"].as_str().unwrap());
      if let Some(g) = case["group"].as_i64() {
         // cases of one group run simultaneously
         let mut grp = vec![];
         while i < cases.len() && cases[i]["group"].as_i64() == Some(g) {
            let m = format!("{}__{}", cases[i]["prog"].as_str().unwrap(), cases[i]["var"].as_str().unwrap());
            grp.push((cases[i].clone(), lookup(&m)));
            i += 1;
         }
         drive_group(&grp, &mut out);
      } else {
         drive(case, &mut out, lookup(&m));
         i += 1;
      }
   }
   out.flush();
}
