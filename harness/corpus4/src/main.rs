#![allow(unused_imports, unused_variables, unused_mut, dead_code, non_snake_case, unused_parens, clippy::all)]
use ascent::lattice::bounded_set::BoundedSet;
use ascent::lattice::constant_propagation::ConstPropagation;
use ascent::lattice::set::Set;
use ascent::lattice::Product;
use ascent::{Dual, Lattice};
use vh_lite::{rows_json, Driven, Value};

use vh_lite::{read_cases, drive, drive_group, quiet_panics, Out};

mod tc_right__topar;
mod tc_left__gen;
mod tc_left__runpar;
mod tc_left__strpar;
mod tc_nonlin__ren;
mod mutual__to;
mod mutual__srcto;
mod mutual__ren;
mod scc_chain__to;
mod scc_chain__strpar;
mod repeated__par;
mod repeated__strpar;
mod three_dyn__ren;
mod conds__ser;
mod conds__src2;
mod conds__perm2;
mod count_up__pari;
mod multi_head__perm1;
mod facts__mrt;
mod facts__init;
mod facts__u64;
mod opt_cols__src0;
mod opt_cols__srcpar;
mod same_gen__topar;
mod not_reorderable__ser;
mod not_reorderable__permpar;
mod pre_join_rec__ren;
mod two_inputs__mrt;
mod two_inputs__init;
mod two_inputs__u64;
mod ternary__perm1;
mod bound_mix__par;
mod bound_mix__strpar;
mod join_chain__str;
mod reach__pari;
mod self_join3__pari;
mod lag_right__ren;
mod lag_left__to;
mod lag_mid__par;
mod lag_mid__strpar;
mod multi_head_rec__pari;
mod sp_dual__to;
mod sp_dual__srcto;
mod sp_dual__ren;
mod longest_capped__par;
mod set_reach__topar;
mod set_reach__srcred;
mod bset__to;
mod opt_lat__par;
mod bool_lat__ser;
mod lat_multi_improve__pari;
mod lat_count_all__ser;
mod lat_input__pari;
mod lat_input__src2;
mod count_paths__par;
mod count_paths__src1;
mod neg_basic__ser;
mod neg_basic__src0;
mod neg_basic__srcpar;
mod agg_minmaxsum__par;
mod agg_lattice__par;
mod neg_rec_after__par;
mod agg_empty__par;
mod agg_empty_rel__topar;
mod agg_pre_join__pari;
mod disj__gen;
mod disj__runpar;
mod disj_nested__ser;
mod pat_args__exp;
mod multi_head_disj__par;
mod neg_in_disj__exppar;
mod mac_basic__gen;
mod mac_basic__runpar;
mod mac_capture__exppar;
mod mac_gensym_disj__pari;
mod mac_block__ser;
mod mac_disj__exp;
mod stress_rel__ser;
mod rnd_core_02__pari;
mod rnd_core_05__par;
mod rnd_core_08__ser;
mod rnd_core_10__pari;
mod rnd_core_13__par;
mod rnd_core_16__ser;
mod rnd_core_18__pari;
mod rnd_core_21__par;
mod rnd_core_24__ser;
mod rnd_core_26__pari;
mod rnd_core_29__par;
mod rnd_agg_02__ser;
mod rnd_agg_04__pari;
mod rnd_agg_07__par;
mod rnd_agg_10__ser;
mod rnd_agg_12__pari;
mod rnd_agg_15__par;
mod rnd_prec_02__par;
mod rnd_prec_03__topar;
mod rnd_prec_05__pari;
mod rnd_prec_07__ser;
mod rnd_prec_08__to;
mod rnd_prea_03__ser;
mod rnd_prea_05__pari;
mod rnd_prea_08__par;

fn lookup(name: &str) -> fn() -> Box<dyn Driven> {
   match name {
      "tc_right__topar" => tc_right__topar::make,
      "tc_left__gen" => tc_left__gen::make,
      "tc_left__runpar" => tc_left__runpar::make,
      "tc_left__strpar" => tc_left__strpar::make,
      "tc_nonlin__ren" => tc_nonlin__ren::make,
      "mutual__to" => mutual__to::make,
      "mutual__srcto" => mutual__srcto::make,
      "mutual__ren" => mutual__ren::make,
      "scc_chain__to" => scc_chain__to::make,
      "scc_chain__strpar" => scc_chain__strpar::make,
      "repeated__par" => repeated__par::make,
      "repeated__strpar" => repeated__strpar::make,
      "three_dyn__ren" => three_dyn__ren::make,
      "conds__ser" => conds__ser::make,
      "conds__src2" => conds__src2::make,
      "conds__perm2" => conds__perm2::make,
      "count_up__pari" => count_up__pari::make,
      "multi_head__perm1" => multi_head__perm1::make,
      "facts__mrt" => facts__mrt::make,
      "facts__init" => facts__init::make,
      "facts__u64" => facts__u64::make,
      "opt_cols__src0" => opt_cols__src0::make,
      "opt_cols__srcpar" => opt_cols__srcpar::make,
      "same_gen__topar" => same_gen__topar::make,
      "not_reorderable__ser" => not_reorderable__ser::make,
      "not_reorderable__permpar" => not_reorderable__permpar::make,
      "pre_join_rec__ren" => pre_join_rec__ren::make,
      "two_inputs__mrt" => two_inputs__mrt::make,
      "two_inputs__init" => two_inputs__init::make,
      "two_inputs__u64" => two_inputs__u64::make,
      "ternary__perm1" => ternary__perm1::make,
      "bound_mix__par" => bound_mix__par::make,
      "bound_mix__strpar" => bound_mix__strpar::make,
      "join_chain__str" => join_chain__str::make,
      "reach__pari" => reach__pari::make,
      "self_join3__pari" => self_join3__pari::make,
      "lag_right__ren" => lag_right__ren::make,
      "lag_left__to" => lag_left__to::make,
      "lag_mid__par" => lag_mid__par::make,
      "lag_mid__strpar" => lag_mid__strpar::make,
      "multi_head_rec__pari" => multi_head_rec__pari::make,
      "sp_dual__to" => sp_dual__to::make,
      "sp_dual__srcto" => sp_dual__srcto::make,
      "sp_dual__ren" => sp_dual__ren::make,
      "longest_capped__par" => longest_capped__par::make,
      "set_reach__topar" => set_reach__topar::make,
      "set_reach__srcred" => set_reach__srcred::make,
      "bset__to" => bset__to::make,
      "opt_lat__par" => opt_lat__par::make,
      "bool_lat__ser" => bool_lat__ser::make,
      "lat_multi_improve__pari" => lat_multi_improve__pari::make,
      "lat_count_all__ser" => lat_count_all__ser::make,
      "lat_input__pari" => lat_input__pari::make,
      "lat_input__src2" => lat_input__src2::make,
      "count_paths__par" => count_paths__par::make,
      "count_paths__src1" => count_paths__src1::make,
      "neg_basic__ser" => neg_basic__ser::make,
      "neg_basic__src0" => neg_basic__src0::make,
      "neg_basic__srcpar" => neg_basic__srcpar::make,
      "agg_minmaxsum__par" => agg_minmaxsum__par::make,
      "agg_lattice__par" => agg_lattice__par::make,
      "neg_rec_after__par" => neg_rec_after__par::make,
      "agg_empty__par" => agg_empty__par::make,
      "agg_empty_rel__topar" => agg_empty_rel__topar::make,
      "agg_pre_join__pari" => agg_pre_join__pari::make,
      "disj__gen" => disj__gen::make,
      "disj__runpar" => disj__runpar::make,
      "disj_nested__ser" => disj_nested__ser::make,
      "pat_args__exp" => pat_args__exp::make,
      "multi_head_disj__par" => multi_head_disj__par::make,
      "neg_in_disj__exppar" => neg_in_disj__exppar::make,
      "mac_basic__gen" => mac_basic__gen::make,
      "mac_basic__runpar" => mac_basic__runpar::make,
      "mac_capture__exppar" => mac_capture__exppar::make,
      "mac_gensym_disj__pari" => mac_gensym_disj__pari::make,
      "mac_block__ser" => mac_block__ser::make,
      "mac_disj__exp" => mac_disj__exp::make,
      "stress_rel__ser" => stress_rel__ser::make,
      "rnd_core_02__pari" => rnd_core_02__pari::make,
      "rnd_core_05__par" => rnd_core_05__par::make,
      "rnd_core_08__ser" => rnd_core_08__ser::make,
      "rnd_core_10__pari" => rnd_core_10__pari::make,
      "rnd_core_13__par" => rnd_core_13__par::make,
      "rnd_core_16__ser" => rnd_core_16__ser::make,
      "rnd_core_18__pari" => rnd_core_18__pari::make,
      "rnd_core_21__par" => rnd_core_21__par::make,
      "rnd_core_24__ser" => rnd_core_24__ser::make,
      "rnd_core_26__pari" => rnd_core_26__pari::make,
      "rnd_core_29__par" => rnd_core_29__par::make,
      "rnd_agg_02__ser" => rnd_agg_02__ser::make,
      "rnd_agg_04__pari" => rnd_agg_04__pari::make,
      "rnd_agg_07__par" => rnd_agg_07__par::make,
      "rnd_agg_10__ser" => rnd_agg_10__ser::make,
      "rnd_agg_12__pari" => rnd_agg_12__pari::make,
      "rnd_agg_15__par" => rnd_agg_15__par::make,
      "rnd_prec_02__par" => rnd_prec_02__par::make,
      "rnd_prec_03__topar" => rnd_prec_03__topar::make,
      "rnd_prec_05__pari" => rnd_prec_05__pari::make,
      "rnd_prec_07__ser" => rnd_prec_07__ser::make,
      "rnd_prec_08__to" => rnd_prec_08__to::make,
      "rnd_prea_03__ser" => rnd_prea_03__ser::make,
      "rnd_prea_05__pari" => rnd_prea_05__pari::make,
      "rnd_prea_08__par" => rnd_prea_08__par::make,
      _ => panic!("no such program variant in this shard: {}", name),
   }
}

fn main() {
   quiet_panics();
   let mut out = Out::open();
   let cases = read_cases();
   let mut i = 0;
   while i < cases.len() {
      let case = &cases[i];
      let m = format!("{}__{}", case["prog"].as_str().unwrap(), case["var"].as_str().unwrap());
      if let Some(g) = case["group"].as_i64() {
         // cases of one group run simultaneously
         let mut grp = vec![];
         while i < cases.len() && cases[i]["group"].as_i64() == Some(g) {
            let m = format!("{}__{}", cases[i]["prog"].as_str().unwrap(), cases[i]["var"].as_str().unwrap());
            grp.push((cases[i].clone(), lookup(&m)));
            i += 1;
         }
         drive_group(&grp, &mut out);
      } else {
         drive(case, &mut out, lookup(&m));
         i += 1;
      }
   }
   out.flush();
}
