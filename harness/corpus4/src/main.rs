#![allow(unused_imports, unused_variables, unused_mut, dead_code, non_snake_case, unused_parens, clippy::all)]
use ascent::lattice::bounded_set::BoundedSet;
use ascent::lattice::constant_propagation::ConstPropagation;
use ascent::lattice::set::Set;
use ascent::lattice::Product;
use ascent::{Dual, Lattice};
use vh_lite::{rows_json, Driven, Value};

use vh_lite::{read_cases, drive, drive_group, quiet_panics, Out};

mod tc_right__topar;
mod tc_left__gen;
mod tc_left__init3;
mod tc_left__str;
mod tc_nonlin__perm1;
mod mutual__par;
mod mutual__src1;
mod mutual__runpar;
mod mutual__strpar;
mod scc_chain__ren;
mod consts__ser;
mod repeated__ren;
mod three_dyn__to;
mod three_dyn__strpar;
mod conds__mrt;
mod conds__init;
mod conds__permpar;
mod count_up__topar;
mod multi_head__ren;
mod facts__src0;
mod facts__runhead;
mod facts__u64;
mod opt_cols__src0;
mod opt_cols__runhead;
mod same_gen__pari;
mod same_gen__u64;
mod not_reorderable__perm2;
mod pre_join_rec__perm1;
mod two_inputs__topar;
mod two_inputs__srcred;
mod two_inputs__perm2;
mod wild__pari;
mod ternary__str;
mod bound_mix__ren;
mod join_chain__perm1;
mod cond_simple_join__par;
mod zero_arity__par;
mod lag_right__to;
mod lag_right__strpar;
mod lag_three__pari;
mod lag_mid__ren;
mod lag_late_delta__to;
mod multi_head_rec__exppar;
mod sp_dual__gen;
mod sp_dual__init3;
mod sp_weighted__ser;
mod longest_capped__to;
mod set_reach__mrt;
mod set_reach__init;
mod bset__to;
mod opt_lat__par;
mod lex_dual_lat__par;
mod lat_two_keys__ser;
mod lat_pre_join__ser;
mod lat_val_bound__ser;
mod lat_input__run;
mod lat_input__redecl;
mod count_paths__pari;
mod count_paths__src2;
mod count_paths__srcpar;
mod neg_basic__gen;
mod neg_basic__init3;
mod neg_basic__exp;
mod agg_depth__to;
mod agg_user__par;
mod agg_bound_mix__par;
mod agg_empty_rel__par;
mod agg_const_args__exppar;
mod disj__topar;
mod disj__srcred;
mod disj__perm2;
mod disj_nested__exp;
mod rep_expr__par;
mod multi_head_disj__exppar;
mod mac_basic__pari;
mod mac_basic__src2;
mod mac_basic__srcpar;
mod mac_nested__ser;
mod mac_gensym_disj__exp;
mod mac_block__par;
mod mac_disj__exppar;
mod stress_rel__par;
mod rnd_core_03__ser;
mod rnd_core_05__pari;
mod rnd_core_08__par;
mod rnd_core_11__ser;
mod rnd_core_13__pari;
mod rnd_core_16__par;
mod rnd_core_19__ser;
mod rnd_core_21__pari;
mod rnd_core_24__par;
mod rnd_core_27__ser;
mod rnd_core_29__pari;
mod rnd_agg_02__par;
mod rnd_agg_05__ser;
mod rnd_agg_07__pari;
mod rnd_agg_10__par;
mod rnd_agg_13__ser;
mod rnd_agg_15__pari;
mod rnd_prec_02__pari;
mod rnd_prec_04__ser;
mod rnd_prec_05__to;
mod rnd_prec_07__par;
mod rnd_prec_08__topar;
mod rnd_prea_03__par;
mod rnd_prea_06__ser;
mod rnd_prea_08__pari;

fn lookup(name: &str) -> fn() -> Box<dyn Driven> {
   match name {
      "tc_right__topar" => tc_right__topar::make,
      "tc_left__gen" => tc_left__gen::make,
      "tc_left__init3" => tc_left__init3::make,
      "tc_left__str" => tc_left__str::make,
      "tc_nonlin__perm1" => tc_nonlin__perm1::make,
      "mutual__par" => mutual__par::make,
      "mutual__src1" => mutual__src1::make,
      "mutual__runpar" => mutual__runpar::make,
      "mutual__strpar" => mutual__strpar::make,
      "scc_chain__ren" => scc_chain__ren::make,
      "consts__ser" => consts__ser::make,
      "repeated__ren" => repeated__ren::make,
      "three_dyn__to" => three_dyn__to::make,
      "three_dyn__strpar" => three_dyn__strpar::make,
      "conds__mrt" => conds__mrt::make,
      "conds__init" => conds__init::make,
      "conds__permpar" => conds__permpar::make,
      "count_up__topar" => count_up__topar::make,
      "multi_head__ren" => multi_head__ren::make,
      "facts__src0" => facts__src0::make,
      "facts__runhead" => facts__runhead::make,
      "facts__u64" => facts__u64::make,
      "opt_cols__src0" => opt_cols__src0::make,
      "opt_cols__runhead" => opt_cols__runhead::make,
      "same_gen__pari" => same_gen__pari::make,
      "same_gen__u64" => same_gen__u64::make,
      "not_reorderable__perm2" => not_reorderable__perm2::make,
      "pre_join_rec__perm1" => pre_join_rec__perm1::make,
      "two_inputs__topar" => two_inputs__topar::make,
      "two_inputs__srcred" => two_inputs__srcred::make,
      "two_inputs__perm2" => two_inputs__perm2::make,
      "wild__pari" => wild__pari::make,
      "ternary__str" => ternary__str::make,
      "bound_mix__ren" => bound_mix__ren::make,
      "join_chain__perm1" => join_chain__perm1::make,
      "cond_simple_join__par" => cond_simple_join__par::make,
      "zero_arity__par" => zero_arity__par::make,
      "lag_right__to" => lag_right__to::make,
      "lag_right__strpar" => lag_right__strpar::make,
      "lag_three__pari" => lag_three__pari::make,
      "lag_mid__ren" => lag_mid__ren::make,
      "lag_late_delta__to" => lag_late_delta__to::make,
      "multi_head_rec__exppar" => multi_head_rec__exppar::make,
      "sp_dual__gen" => sp_dual__gen::make,
      "sp_dual__init3" => sp_dual__init3::make,
      "sp_weighted__ser" => sp_weighted__ser::make,
      "longest_capped__to" => longest_capped__to::make,
      "set_reach__mrt" => set_reach__mrt::make,
      "set_reach__init" => set_reach__init::make,
      "bset__to" => bset__to::make,
      "opt_lat__par" => opt_lat__par::make,
      "lex_dual_lat__par" => lex_dual_lat__par::make,
      "lat_two_keys__ser" => lat_two_keys__ser::make,
      "lat_pre_join__ser" => lat_pre_join__ser::make,
      "lat_val_bound__ser" => lat_val_bound__ser::make,
      "lat_input__run" => lat_input__run::make,
      "lat_input__redecl" => lat_input__redecl::make,
      "count_paths__pari" => count_paths__pari::make,
      "count_paths__src2" => count_paths__src2::make,
      "count_paths__srcpar" => count_paths__srcpar::make,
      "neg_basic__gen" => neg_basic__gen::make,
      "neg_basic__init3" => neg_basic__init3::make,
      "neg_basic__exp" => neg_basic__exp::make,
      "agg_depth__to" => agg_depth__to::make,
      "agg_user__par" => agg_user__par::make,
      "agg_bound_mix__par" => agg_bound_mix__par::make,
      "agg_empty_rel__par" => agg_empty_rel__par::make,
      "agg_const_args__exppar" => agg_const_args__exppar::make,
      "disj__topar" => disj__topar::make,
      "disj__srcred" => disj__srcred::make,
      "disj__perm2" => disj__perm2::make,
      "disj_nested__exp" => disj_nested__exp::make,
      "rep_expr__par" => rep_expr__par::make,
      "multi_head_disj__exppar" => multi_head_disj__exppar::make,
      "mac_basic__pari" => mac_basic__pari::make,
      "mac_basic__src2" => mac_basic__src2::make,
      "mac_basic__srcpar" => mac_basic__srcpar::make,
      "mac_nested__ser" => mac_nested__ser::make,
      "mac_gensym_disj__exp" => mac_gensym_disj__exp::make,
      "mac_block__par" => mac_block__par::make,
      "mac_disj__exppar" => mac_disj__exppar::make,
      "stress_rel__par" => stress_rel__par::make,
      "rnd_core_03__ser" => rnd_core_03__ser::make,
      "rnd_core_05__pari" => rnd_core_05__pari::make,
      "rnd_core_08__par" => rnd_core_08__par::make,
      "rnd_core_11__ser" => rnd_core_11__ser::make,
      "rnd_core_13__pari" => rnd_core_13__pari::make,
      "rnd_core_16__par" => rnd_core_16__par::make,
      "rnd_core_19__ser" => rnd_core_19__ser::make,
      "rnd_core_21__pari" => rnd_core_21__pari::make,
      "rnd_core_24__par" => rnd_core_24__par::make,
      "rnd_core_27__ser" => rnd_core_27__ser::make,
      "rnd_core_29__pari" => rnd_core_29__pari::make,
      "rnd_agg_02__par" => rnd_agg_02__par::make,
      "rnd_agg_05__ser" => rnd_agg_05__ser::make,
      "rnd_agg_07__pari" => rnd_agg_07__pari::make,
      "rnd_agg_10__par" => rnd_agg_10__par::make,
      "rnd_agg_13__ser" => rnd_agg_13__ser::make,
      "rnd_agg_15__pari" => rnd_agg_15__pari::make,
      "rnd_prec_02__pari" => rnd_prec_02__pari::make,
      "rnd_prec_04__ser" => rnd_prec_04__ser::make,
      "rnd_prec_05__to" => rnd_prec_05__to::make,
      "rnd_prec_07__par" => rnd_prec_07__par::make,
      "rnd_prec_08__topar" => rnd_prec_08__topar::make,
      "rnd_prea_03__par" => rnd_prea_03__par::make,
      "rnd_prea_06__ser" => rnd_prea_06__ser::make,
      "rnd_prea_08__pari" => rnd_prea_08__pari::make,
      _ => panic!("no such program variant in this shard: {}", name),
   }
}

fn main() {
   quiet_panics();
   let mut out = Out::open();
   let cases = read_cases();
   let mut i = 0;
   while i < cases.len() {
      let case = &cases[i];
      let m = format!("{}__{}", case["prog"].as_str().unwrap(), case["var"].as_str().unwrap());
      if let Some(g) = case["group"].as_i64() {
         // cases of one group run simultaneously
         let mut grp = vec![];
         while i < cases.len() && cases[i]["group"].as_i64() == Some(g) {
            let m = format!("{}__{}", cases[i]["prog"].as_str().unwrap(), cases[i]["var"].as_str().unwrap());
            grp.push((cases[i].clone(), lookup(&m)));
            i += 1;
         }
         drive_group(&grp, &mut out);
      } else {
         drive(case, &mut out, lookup(&m));
         i += 1;
      }
   }
   out.flush();
}
