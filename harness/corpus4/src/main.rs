#![allow(unused_imports, unused_variables, unused_mut, dead_code, non_snake_case, unused_parens, clippy::all)]
use ascent::lattice::bounded_set::BoundedSet;
use ascent::lattice::constant_propagation::ConstPropagation;
use ascent::lattice::set::Set;
use ascent::lattice::Product;
use ascent::{Dual, Lattice};
use vh_lite::{rows_json, Driven, Value};

use vh_lite::{read_cases, drive, drive_group, quiet_panics, Out};

mod tc_right__topar;
mod tc_left__gen;
mod tc_left__srcpar;
mod tc_nonlin__ser;
mod tc_nonlin__permpar;
mod mutual__topar;
mod mutual__redecl;
mod mutual__str;
mod scc_chain__perm1;
mod diamond__par;
mod repeated__perm1;
mod three_dyn__par;
mod three_dyn__str;
mod conds__pari;
mod conds__redecl;
mod expr_args__ser;
mod multi_head__ser;
mod multi_head__permpar;
mod facts__src1;
mod facts__perm2;
mod opt_cols__pari;
mod opt_cols__redecl;
mod same_gen__par;
mod same_gen__str;
mod not_reorderable__perm1;
mod pre_join_rec__topar;
mod two_inputs__to;
mod two_inputs__srcto;
mod two_inputs__permpar;
mod ternary__par;
mod ternary__strpar;
mod bound_mix__str;
mod join_chain__ren;
mod reach__ser;
mod self_join3__ser;
mod lag_right__perm1;
mod lag_left__par;
mod lag_three__topar;
mod lag_mid__str;
mod multi_head_rec__ser;
mod sp_dual__par;
mod sp_dual__src1;
mod sp_dual__perm2;
mod longest_capped__ser;
mod set_reach__to;
mod set_reach__srcto;
mod bset__to;
mod opt_lat__par;
mod lat_two_keys__ser;
mod lat_pre_join__ser;
mod lat_val_bound__ser;
mod lat_input__run;
mod lat_input__init;
mod count_paths__run;
mod count_paths__init;
mod neg_basic__run;
mod neg_basic__init;
mod neg_basic__exppar;
mod agg_depth__topar;
mod agg_user__pari;
mod agg_bound_mix__pari;
mod agg_empty_rel__pari;
mod agg_pre_join__ser;
mod disj__run;
mod disj__init;
mod disj__exppar;
mod pat_args__pari;
mod multi_head_disj__ser;
mod neg_in_disj__exp;
mod mac_basic__mrt;
mod mac_basic__runpar;
mod mac_capture__exppar;
mod mac_gensym_disj__pari;
mod stress_lat__ser;
mod rnd_core_01__pari;
mod rnd_core_04__par;
mod rnd_core_07__ser;
mod rnd_core_09__pari;
mod rnd_core_12__par;
mod rnd_core_15__ser;
mod rnd_core_17__pari;
mod rnd_core_20__par;
mod rnd_core_23__ser;
mod rnd_core_25__pari;
mod rnd_core_28__par;
mod rnd_agg_01__ser;
mod rnd_agg_03__pari;
mod rnd_agg_06__par;
mod rnd_agg_09__ser;
mod rnd_agg_11__pari;
mod rnd_agg_14__par;
mod rnd_prec_01__to;
mod rnd_prec_03__par;
mod rnd_prec_04__topar;
mod rnd_prec_06__pari;
mod rnd_prec_08__ser;
mod rnd_prea_02__ser;
mod rnd_prea_04__pari;
mod rnd_prea_07__par;

fn lookup(name: &str) -> fn() -> Box<dyn Driven> {
   match name {
      "tc_right__topar" => tc_right__topar::make,
      "tc_left__gen" => tc_left__gen::make,
      "tc_left__srcpar" => tc_left__srcpar::make,
      "tc_nonlin__ser" => tc_nonlin__ser::make,
      "tc_nonlin__permpar" => tc_nonlin__permpar::make,
      "mutual__topar" => mutual__topar::make,
      "mutual__redecl" => mutual__redecl::make,
      "mutual__str" => mutual__str::make,
      "scc_chain__perm1" => scc_chain__perm1::make,
      "diamond__par" => diamond__par::make,
      "repeated__perm1" => repeated__perm1::make,
      "three_dyn__par" => three_dyn__par::make,
      "three_dyn__str" => three_dyn__str::make,
      "conds__pari" => conds__pari::make,
      "conds__redecl" => conds__redecl::make,
      "expr_args__ser" => expr_args__ser::make,
      "multi_head__ser" => multi_head__ser::make,
      "multi_head__permpar" => multi_head__permpar::make,
      "facts__src1" => facts__src1::make,
      "facts__perm2" => facts__perm2::make,
      "opt_cols__pari" => opt_cols__pari::make,
      "opt_cols__redecl" => opt_cols__redecl::make,
      "same_gen__par" => same_gen__par::make,
      "same_gen__str" => same_gen__str::make,
      "not_reorderable__perm1" => not_reorderable__perm1::make,
      "pre_join_rec__topar" => pre_join_rec__topar::make,
      "two_inputs__to" => two_inputs__to::make,
      "two_inputs__srcto" => two_inputs__srcto::make,
      "two_inputs__permpar" => two_inputs__permpar::make,
      "ternary__par" => ternary__par::make,
      "ternary__strpar" => ternary__strpar::make,
      "bound_mix__str" => bound_mix__str::make,
      "join_chain__ren" => join_chain__ren::make,
      "reach__ser" => reach__ser::make,
      "self_join3__ser" => self_join3__ser::make,
      "lag_right__perm1" => lag_right__perm1::make,
      "lag_left__par" => lag_left__par::make,
      "lag_three__topar" => lag_three__topar::make,
      "lag_mid__str" => lag_mid__str::make,
      "multi_head_rec__ser" => multi_head_rec__ser::make,
      "sp_dual__par" => sp_dual__par::make,
      "sp_dual__src1" => sp_dual__src1::make,
      "sp_dual__perm2" => sp_dual__perm2::make,
      "longest_capped__ser" => longest_capped__ser::make,
      "set_reach__to" => set_reach__to::make,
      "set_reach__srcto" => set_reach__srcto::make,
      "bset__to" => bset__to::make,
      "opt_lat__par" => opt_lat__par::make,
      "lat_two_keys__ser" => lat_two_keys__ser::make,
      "lat_pre_join__ser" => lat_pre_join__ser::make,
      "lat_val_bound__ser" => lat_val_bound__ser::make,
      "lat_input__run" => lat_input__run::make,
      "lat_input__init" => lat_input__init::make,
      "count_paths__run" => count_paths__run::make,
      "count_paths__init" => count_paths__init::make,
      "neg_basic__run" => neg_basic__run::make,
      "neg_basic__init" => neg_basic__init::make,
      "neg_basic__exppar" => neg_basic__exppar::make,
      "agg_depth__topar" => agg_depth__topar::make,
      "agg_user__pari" => agg_user__pari::make,
      "agg_bound_mix__pari" => agg_bound_mix__pari::make,
      "agg_empty_rel__pari" => agg_empty_rel__pari::make,
      "agg_pre_join__ser" => agg_pre_join__ser::make,
      "disj__run" => disj__run::make,
      "disj__init" => disj__init::make,
      "disj__exppar" => disj__exppar::make,
      "pat_args__pari" => pat_args__pari::make,
      "multi_head_disj__ser" => multi_head_disj__ser::make,
      "neg_in_disj__exp" => neg_in_disj__exp::make,
      "mac_basic__mrt" => mac_basic__mrt::make,
      "mac_basic__runpar" => mac_basic__runpar::make,
      "mac_capture__exppar" => mac_capture__exppar::make,
      "mac_gensym_disj__pari" => mac_gensym_disj__pari::make,
      "stress_lat__ser" => stress_lat__ser::make,
      "rnd_core_01__pari" => rnd_core_01__pari::make,
      "rnd_core_04__par" => rnd_core_04__par::make,
      "rnd_core_07__ser" => rnd_core_07__ser::make,
      "rnd_core_09__pari" => rnd_core_09__pari::make,
      "rnd_core_12__par" => rnd_core_12__par::make,
      "rnd_core_15__ser" => rnd_core_15__ser::make,
      "rnd_core_17__pari" => rnd_core_17__pari::make,
      "rnd_core_20__par" => rnd_core_20__par::make,
      "rnd_core_23__ser" => rnd_core_23__ser::make,
      "rnd_core_25__pari" => rnd_core_25__pari::make,
      "rnd_core_28__par" => rnd_core_28__par::make,
      "rnd_agg_01__ser" => rnd_agg_01__ser::make,
      "rnd_agg_03__pari" => rnd_agg_03__pari::make,
      "rnd_agg_06__par" => rnd_agg_06__par::make,
      "rnd_agg_09__ser" => rnd_agg_09__ser::make,
      "rnd_agg_11__pari" => rnd_agg_11__pari::make,
      "rnd_agg_14__par" => rnd_agg_14__par::make,
      "rnd_prec_01__to" => rnd_prec_01__to::make,
      "rnd_prec_03__par" => rnd_prec_03__par::make,
      "rnd_prec_04__topar" => rnd_prec_04__topar::make,
      "rnd_prec_06__pari" => rnd_prec_06__pari::make,
      "rnd_prec_08__ser" => rnd_prec_08__ser::make,
      "rnd_prea_02__ser" => rnd_prea_02__ser::make,
      "rnd_prea_04__pari" => rnd_prea_04__pari::make,
      "rnd_prea_07__par" => rnd_prea_07__par::make,
      _ => panic!("no such program variant in this shard: {}", name),
   }
}

fn main() {
   quiet_panics();
   let mut out = Out::open();
   let cases = read_cases();
   let mut i = 0;
   while i < cases.len() {
      let case = &cases[i];
      let m = format!("{}__{}", case["prog"].as_str().unwrap(), case["var"].as_str().unwrap());
      if let Some(g) = case["group"].as_i64() {
         // cases of one group run simultaneously
         let mut grp = vec![];
         while i < cases.len() && cases[i]["group"].as_i64() == Some(g) {
            let m = format!("{}__{}", cases[i]["prog"].as_str().unwrap(), cases[i]["var"].as_str().unwrap());
            grp.push((cases[i].clone(), lookup(&m)));
            i += 1;
         }
         drive_group(&grp, &mut out);
      } else {
         drive(case, &mut out, lookup(&m));
         i += 1;
      }
   }
   out.flush();
}
