#![allow(unused_imports, unused_variables, unused_mut, dead_code, non_snake_case, unused_parens, clippy::all)]
use ascent::lattice::bounded_set::BoundedSet;
use ascent::lattice::constant_propagation::ConstPropagation;
use ascent::lattice::set::Set;
use ascent::lattice::Product;
use ascent::{Dual, Lattice};
use vh_lite::{rows_json, Driven, Value};

use vh_lite::{read_cases, drive, drive_group, quiet_panics, Out};

mod tc_right__topar;
mod tc_left__gen;
mod tc_left__perm1;
mod tc_nonlin__par;
mod tc_nonlin__str;
mod mutual__run;
mod mutual__runpar;
mod mutual__strpar;
mod scc_chain__ren;
mod consts__ser;
mod repeated__ren;
mod three_dyn__to;
mod three_dyn__strpar;
mod conds__mrt;
mod conds__srcpar;
mod count_up__ser;
mod multi_head__to;
mod facts__pari;
mod facts__init;
mod facts__u64;
mod opt_cols__src0;
mod cartesian__par;
mod same_gen__perm2;
mod not_reorderable__pari;
mod two_inputs__gen;
mod two_inputs__perm1;
mod wild__par;
mod ternary__permpar;
mod bound_mix__perm2;
mod join_chain__pari;
mod cond_simple_join__ser;
mod zero_arity__ser;
mod lag_right__pari;
mod lag_right__u64;
mod lag_three__par;
mod lag_mid__perm2;
mod lag_late_delta__pari;
mod sp_dual__run;
mod sp_dual__runpar;
mod sp_weighted__pari;
mod set_reach__ser;
mod set_reach__src0;
mod bset__par;
mod cp__topar;
mod bool_lat__par;
mod lat_multi_improve__to;
mod count_paths__to;
mod count_paths__redecl;
mod neg_basic__topar;
mod neg_basic__init;
mod neg_basic__exppar;
mod agg_depth__topar;
mod agg_user__pari;
mod agg_bound_mix__pari;
mod agg_empty_rel__pari;
mod disj__ser;
mod disj__src0;
mod disj__perm2;
mod disj_nested__exp;
mod rep_expr__par;
mod multi_head_disj__exppar;
mod mac_basic__pari;
mod mac_basic__src2;
mod mac_capture__par;
mod mac_nested__exppar;
mod mac_disj__pari;
mod rnd_core_02__pari;
mod rnd_core_05__par;
mod rnd_core_08__ser;
mod rnd_core_10__pari;
mod rnd_core_13__par;
mod rnd_core_16__ser;
mod rnd_core_18__pari;
mod rnd_core_21__par;
mod rnd_core_24__ser;
mod rnd_core_26__pari;
mod rnd_core_29__par;
mod rnd_agg_02__ser;
mod rnd_agg_04__pari;
mod rnd_agg_07__par;
mod rnd_agg_10__ser;
mod rnd_agg_12__pari;
mod rnd_agg_15__par;

fn lookup(name: &str) -> fn() -> Box<dyn Driven> {
   match name {
      "tc_right__topar" => tc_right__topar::make,
      "tc_left__gen" => tc_left__gen::make,
      "tc_left__perm1" => tc_left__perm1::make,
      "tc_nonlin__par" => tc_nonlin__par::make,
      "tc_nonlin__str" => tc_nonlin__str::make,
      "mutual__run" => mutual__run::make,
      "mutual__runpar" => mutual__runpar::make,
      "mutual__strpar" => mutual__strpar::make,
      "scc_chain__ren" => scc_chain__ren::make,
      "consts__ser" => consts__ser::make,
      "repeated__ren" => repeated__ren::make,
      "three_dyn__to" => three_dyn__to::make,
      "three_dyn__strpar" => three_dyn__strpar::make,
      "conds__mrt" => conds__mrt::make,
      "conds__srcpar" => conds__srcpar::make,
      "count_up__ser" => count_up__ser::make,
      "multi_head__to" => multi_head__to::make,
      "facts__pari" => facts__pari::make,
      "facts__init" => facts__init::make,
      "facts__u64" => facts__u64::make,
      "opt_cols__src0" => opt_cols__src0::make,
      "cartesian__par" => cartesian__par::make,
      "same_gen__perm2" => same_gen__perm2::make,
      "not_reorderable__pari" => not_reorderable__pari::make,
      "two_inputs__gen" => two_inputs__gen::make,
      "two_inputs__perm1" => two_inputs__perm1::make,
      "wild__par" => wild__par::make,
      "ternary__permpar" => ternary__permpar::make,
      "bound_mix__perm2" => bound_mix__perm2::make,
      "join_chain__pari" => join_chain__pari::make,
      "cond_simple_join__ser" => cond_simple_join__ser::make,
      "zero_arity__ser" => zero_arity__ser::make,
      "lag_right__pari" => lag_right__pari::make,
      "lag_right__u64" => lag_right__u64::make,
      "lag_three__par" => lag_three__par::make,
      "lag_mid__perm2" => lag_mid__perm2::make,
      "lag_late_delta__pari" => lag_late_delta__pari::make,
      "sp_dual__run" => sp_dual__run::make,
      "sp_dual__runpar" => sp_dual__runpar::make,
      "sp_weighted__pari" => sp_weighted__pari::make,
      "set_reach__ser" => set_reach__ser::make,
      "set_reach__src0" => set_reach__src0::make,
      "bset__par" => bset__par::make,
      "cp__topar" => cp__topar::make,
      "bool_lat__par" => bool_lat__par::make,
      "lat_multi_improve__to" => lat_multi_improve__to::make,
      "count_paths__to" => count_paths__to::make,
      "count_paths__redecl" => count_paths__redecl::make,
      "neg_basic__topar" => neg_basic__topar::make,
      "neg_basic__init" => neg_basic__init::make,
      "neg_basic__exppar" => neg_basic__exppar::make,
      "agg_depth__topar" => agg_depth__topar::make,
      "agg_user__pari" => agg_user__pari::make,
      "agg_bound_mix__pari" => agg_bound_mix__pari::make,
      "agg_empty_rel__pari" => agg_empty_rel__pari::make,
      "disj__ser" => disj__ser::make,
      "disj__src0" => disj__src0::make,
      "disj__perm2" => disj__perm2::make,
      "disj_nested__exp" => disj_nested__exp::make,
      "rep_expr__par" => rep_expr__par::make,
      "multi_head_disj__exppar" => multi_head_disj__exppar::make,
      "mac_basic__pari" => mac_basic__pari::make,
      "mac_basic__src2" => mac_basic__src2::make,
      "mac_capture__par" => mac_capture__par::make,
      "mac_nested__exppar" => mac_nested__exppar::make,
      "mac_disj__pari" => mac_disj__pari::make,
      "rnd_core_02__pari" => rnd_core_02__pari::make,
      "rnd_core_05__par" => rnd_core_05__par::make,
      "rnd_core_08__ser" => rnd_core_08__ser::make,
      "rnd_core_10__pari" => rnd_core_10__pari::make,
      "rnd_core_13__par" => rnd_core_13__par::make,
      "rnd_core_16__ser" => rnd_core_16__ser::make,
      "rnd_core_18__pari" => rnd_core_18__pari::make,
      "rnd_core_21__par" => rnd_core_21__par::make,
      "rnd_core_24__ser" => rnd_core_24__ser::make,
      "rnd_core_26__pari" => rnd_core_26__pari::make,
      "rnd_core_29__par" => rnd_core_29__par::make,
      "rnd_agg_02__ser" => rnd_agg_02__ser::make,
      "rnd_agg_04__pari" => rnd_agg_04__pari::make,
      "rnd_agg_07__par" => rnd_agg_07__par::make,
      "rnd_agg_10__ser" => rnd_agg_10__ser::make,
      "rnd_agg_12__pari" => rnd_agg_12__pari::make,
      "rnd_agg_15__par" => rnd_agg_15__par::make,
      _ => panic!("no such program variant in this shard: {}", name),
   }
}

fn main() {
   quiet_panics();
   let mut out = Out::open();
   let cases = read_cases();
   let mut i = 0;
   while i < cases.len() {
      let case = &cases[i];
      let m = format!("{}__{}", case["prog"].as_str().unwrap(), case["var"].as_str().unwrap());
      if let Some(g) = case["group"].as_i64() {
         // cases of one group run simultaneously
         let mut grp = vec![];
         while i < cases.len() && cases[i]["group"].as_i64() == Some(g) {
            let m = format!("{}__{}", cases[i]["prog"].as_str().unwrap(), cases[i]["var"].as_str().unwrap());
            grp.push((cases[i].clone(), lookup(&m)));
            i += 1;
         }
         drive_group(&grp, &mut out);
      } else {
         drive(case, &mut out, lookup(&m));
         i += 1;
      }
   }
   out.flush();
}
