#![allow(unused_imports, unused_variables, unused_mut, dead_code, non_snake_case, unused_parens, clippy::all)]
use ascent::lattice::bounded_set::BoundedSet;
use ascent::lattice::constant_propagation::ConstPropagation;
use ascent::lattice::set::Set;
use ascent::lattice::Product;
use ascent::{Dual, Lattice};
use vh_lite::{rows_json, Driven, Value};

use vh_lite::{read_cases, drive, drive_group, quiet_panics, Out};

mod tc_right__topar;
mod tc_left__gen;
mod tc_left__runpar;
mod tc_left__strpar;
mod tc_nonlin__ren;
mod mutual__to;
mod mutual__srcto;
mod mutual__ren;
mod scc_chain__to;
mod scc_chain__strpar;
mod repeated__par;
mod repeated__strpar;
mod three_dyn__ren;
mod conds__ser;
mod conds__src2;
mod conds__perm2;
mod count_up__pari;
mod multi_head__perm1;
mod facts__mrt;
mod facts__init;
mod facts__u64;
mod opt_cols__src0;
mod opt_cols__srcpar;
mod same_gen__topar;
mod not_reorderable__ser;
mod not_reorderable__permpar;
mod pre_join_rec__ren;
mod two_inputs__mrt;
mod two_inputs__init;
mod two_inputs__u64;
mod ternary__perm1;
mod bound_mix__par;
mod bound_mix__strpar;
mod join_chain__str;
mod reach__pari;
mod self_join3__pari;
mod lag_right__ren;
mod lag_left__to;
mod lag_mid__par;
mod lag_mid__strpar;
mod multi_head_rec__pari;
mod sp_dual__to;
mod sp_dual__srcto;
mod sp_dual__ren;
mod longest_capped__par;
mod set_reach__topar;
mod set_reach__srcred;
mod bset__to;
mod opt_lat__par;
mod lex_dual_lat__par;
mod lat_two_keys__ser;
mod lat_pre_join__ser;
mod lat_val_bound__ser;
mod lat_input__run;
mod lat_input__redecl;
mod count_paths__topar;
mod count_paths__srcred;
mod neg_basic__to;
mod neg_basic__srcto;
mod neg_basic__ren;
mod agg_depth__par;
mod agg_lattice__topar;
mod neg_rec_after__exppar;
mod agg_empty__topar;
mod agg_const_args__pari;
mod disj__pari;
mod disj__src2;
mod disj__perm2;
mod disj_nested__exp;
mod rep_expr__par;
mod multi_head_disj__exppar;
mod mac_basic__pari;
mod mac_basic__src2;
mod mac_basic__exppar;
mod mac_nested__pari;
mod mac_local_names__ser;
mod mac_block__exp;
mod stress_lat__par;
mod rnd_core_01__ser;
mod rnd_core_03__pari;
mod rnd_core_06__par;
mod rnd_core_09__ser;
mod rnd_core_11__pari;
mod rnd_core_14__par;
mod rnd_core_17__ser;
mod rnd_core_19__pari;
mod rnd_core_22__par;
mod rnd_core_25__ser;
mod rnd_core_27__pari;
mod rnd_core_30__par;
mod rnd_agg_03__ser;
mod rnd_agg_05__pari;
mod rnd_agg_08__par;
mod rnd_agg_11__ser;
mod rnd_agg_13__pari;
mod rnd_prec_01__par;
mod rnd_prec_02__topar;
mod rnd_prec_04__pari;
mod rnd_prec_06__ser;
mod rnd_prec_07__to;
mod rnd_prea_01__par;
mod rnd_prea_04__ser;
mod rnd_prea_06__pari;

fn lookup(name: &str) -> fn() -> Box<dyn Driven> {
   match name {
      "tc_right__topar" => tc_right__topar::make,
      "tc_left__gen" => tc_left__gen::make,
      "tc_left__runpar" => tc_left__runpar::make,
      "tc_left__strpar" => tc_left__strpar::make,
      "tc_nonlin__ren" => tc_nonlin__ren::make,
      "mutual__to" => mutual__to::make,
      "mutual__srcto" => mutual__srcto::make,
      "mutual__ren" => mutual__ren::make,
      "scc_chain__to" => scc_chain__to::make,
      "scc_chain__strpar" => scc_chain__strpar::make,
      "repeated__par" => repeated__par::make,
      "repeated__strpar" => repeated__strpar::make,
      "three_dyn__ren" => three_dyn__ren::make,
      "conds__ser" => conds__ser::make,
      "conds__src2" => conds__src2::make,
      "conds__perm2" => conds__perm2::make,
      "count_up__pari" => count_up__pari::make,
      "multi_head__perm1" => multi_head__perm1::make,
      "facts__mrt" => facts__mrt::make,
      "facts__init" => facts__init::make,
      "facts__u64" => facts__u64::make,
      "opt_cols__src0" => opt_cols__src0::make,
      "opt_cols__srcpar" => opt_cols__srcpar::make,
      "same_gen__topar" => same_gen__topar::make,
      "not_reorderable__ser" => not_reorderable__ser::make,
      "not_reorderable__permpar" => not_reorderable__permpar::make,
      "pre_join_rec__ren" => pre_join_rec__ren::make,
      "two_inputs__mrt" => two_inputs__mrt::make,
      "two_inputs__init" => two_inputs__init::make,
      "two_inputs__u64" => two_inputs__u64::make,
      "ternary__perm1" => ternary__perm1::make,
      "bound_mix__par" => bound_mix__par::make,
      "bound_mix__strpar" => bound_mix__strpar::make,
      "join_chain__str" => join_chain__str::make,
      "reach__pari" => reach__pari::make,
      "self_join3__pari" => self_join3__pari::make,
      "lag_right__ren" => lag_right__ren::make,
      "lag_left__to" => lag_left__to::make,
      "lag_mid__par" => lag_mid__par::make,
      "lag_mid__strpar" => lag_mid__strpar::make,
      "multi_head_rec__pari" => multi_head_rec__pari::make,
      "sp_dual__to" => sp_dual__to::make,
      "sp_dual__srcto" => sp_dual__srcto::make,
      "sp_dual__ren" => sp_dual__ren::make,
      "longest_capped__par" => longest_capped__par::make,
      "set_reach__topar" => set_reach__topar::make,
      "set_reach__srcred" => set_reach__srcred::make,
      "bset__to" => bset__to::make,
      "opt_lat__par" => opt_lat__par::make,
      "lex_dual_lat__par" => lex_dual_lat__par::make,
      "lat_two_keys__ser" => lat_two_keys__ser::make,
      "lat_pre_join__ser" => lat_pre_join__ser::make,
      "lat_val_bound__ser" => lat_val_bound__ser::make,
      "lat_input__run" => lat_input__run::make,
      "lat_input__redecl" => lat_input__redecl::make,
      "count_paths__topar" => count_paths__topar::make,
      "count_paths__srcred" => count_paths__srcred::make,
      "neg_basic__to" => neg_basic__to::make,
      "neg_basic__srcto" => neg_basic__srcto::make,
      "neg_basic__ren" => neg_basic__ren::make,
      "agg_depth__par" => agg_depth__par::make,
      "agg_lattice__topar" => agg_lattice__topar::make,
      "neg_rec_after__exppar" => neg_rec_after__exppar::make,
      "agg_empty__topar" => agg_empty__topar::make,
      "agg_const_args__pari" => agg_const_args__pari::make,
      "disj__pari" => disj__pari::make,
      "disj__src2" => disj__src2::make,
      "disj__perm2" => disj__perm2::make,
      "disj_nested__exp" => disj_nested__exp::make,
      "rep_expr__par" => rep_expr__par::make,
      "multi_head_disj__exppar" => multi_head_disj__exppar::make,
      "mac_basic__pari" => mac_basic__pari::make,
      "mac_basic__src2" => mac_basic__src2::make,
      "mac_basic__exppar" => mac_basic__exppar::make,
      "mac_nested__pari" => mac_nested__pari::make,
      "mac_local_names__ser" => mac_local_names__ser::make,
      "mac_block__exp" => mac_block__exp::make,
      "stress_lat__par" => stress_lat__par::make,
      "rnd_core_01__ser" => rnd_core_01__ser::make,
      "rnd_core_03__pari" => rnd_core_03__pari::make,
      "rnd_core_06__par" => rnd_core_06__par::make,
      "rnd_core_09__ser" => rnd_core_09__ser::make,
      "rnd_core_11__pari" => rnd_core_11__pari::make,
      "rnd_core_14__par" => rnd_core_14__par::make,
      "rnd_core_17__ser" => rnd_core_17__ser::make,
      "rnd_core_19__pari" => rnd_core_19__pari::make,
      "rnd_core_22__par" => rnd_core_22__par::make,
      "rnd_core_25__ser" => rnd_core_25__ser::make,
      "rnd_core_27__pari" => rnd_core_27__pari::make,
      "rnd_core_30__par" => rnd_core_30__par::make,
      "rnd_agg_03__ser" => rnd_agg_03__ser::make,
      "rnd_agg_05__pari" => rnd_agg_05__pari::make,
      "rnd_agg_08__par" => rnd_agg_08__par::make,
      "rnd_agg_11__ser" => rnd_agg_11__ser::make,
      "rnd_agg_13__pari" => rnd_agg_13__pari::make,
      "rnd_prec_01__par" => rnd_prec_01__par::make,
      "rnd_prec_02__topar" => rnd_prec_02__topar::make,
      "rnd_prec_04__pari" => rnd_prec_04__pari::make,
      "rnd_prec_06__ser" => rnd_prec_06__ser::make,
      "rnd_prec_07__to" => rnd_prec_07__to::make,
      "rnd_prea_01__par" => rnd_prea_01__par::make,
      "rnd_prea_04__ser" => rnd_prea_04__ser::make,
      "rnd_prea_06__pari" => rnd_prea_06__pari::make,
      _ => panic!("no such program variant in this shard: {}", name),
   }
}

fn main() {
   quiet_panics();
   let mut out = Out::open();
   let cases = read_cases();
   let mut i = 0;
   while i < cases.len() {
      let case = &cases[i];
      let m = format!("{}__{}", case["prog"].as_str().unwrap(), case["var"].as_str().unwrap());
      if let Some(g) = case["group"].as_i64() {
         // cases of one group run simultaneously
         let mut grp = vec![];
         while i < cases.len() && cases[i]["group"].as_i64() == Some(g) {
            let m = format!("{}__{}", cases[i]["prog"].as_str().unwrap(), cases[i]["var"].as_str().unwrap());
            grp.push((cases[i].clone(), lookup(&m)));
            i += 1;
         }
         drive_group(&grp, &mut out);
      } else {
         drive(case, &mut out, lookup(&m));
         i += 1;
      }
   }
   out.flush();
}
