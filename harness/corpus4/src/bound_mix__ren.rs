#![allow(unused_imports, unused_variables, unused_mut, dead_code, non_snake_case, unused_parens, clippy::all)]
use ascent::lattice::bounded_set::BoundedSet;
use ascent::lattice::constant_propagation::ConstPropagation;
use ascent::lattice::set::Set;
use ascent::lattice::Product;
use ascent::{Dual, Lattice};
use vh_lite::{rows_json, Driven, Value};
ascent::ascent! {
   pub struct Prog;
   relation t_rn(i32, i32, i32);
   relation u_rn(i32);
   relation r1_rn(i32);
   relation r2_rn(i32, i32);
   relation r3_rn(i32);
   r1_rn(v_z_q) <-- u_rn(v_x_q), t_rn(v_x_q, _, v_z_q);
   r2_rn(v_x_q, v_z_q) <-- u_rn(v_y_q), t_rn(v_x_q, v_y_q, v_z_q);
   r3_rn(v_x_q) <-- u_rn(v_z_q), u_rn(v_y_q), t_rn(v_x_q, v_y_q, v_z_q);
   r1_rn(v_x_q) <-- r3_rn(v_x_q), t_rn(_, v_x_q, v_x_q);
}

pub struct D(Prog);
impl Driven for D {
   fn push(&mut self, rel: &str, row: &Value) {
      match rel {
         "t_rn" => { self.0.t_rn.push((row[0].as_i64().unwrap() as i32, row[1].as_i64().unwrap() as i32, row[2].as_i64().unwrap() as i32,)); },
         "u_rn" => { self.0.u_rn.push((row[0].as_i64().unwrap() as i32,)); },
         "r1_rn" => { self.0.r1_rn.push((row[0].as_i64().unwrap() as i32,)); },
         "r2_rn" => { self.0.r2_rn.push((row[0].as_i64().unwrap() as i32, row[1].as_i64().unwrap() as i32,)); },
         "r3_rn" => { self.0.r3_rn.push((row[0].as_i64().unwrap() as i32,)); },
         _ => panic!("verif harness: unknown relation {}", rel),
      }
   }
   fn clear(&mut self, rel: &str) {
      match rel {
         "t_rn" => { self.0.t_rn = Default::default(); },
         "u_rn" => { self.0.u_rn = Default::default(); },
         "r1_rn" => { self.0.r1_rn = Default::default(); },
         "r2_rn" => { self.0.r2_rn = Default::default(); },
         "r3_rn" => { self.0.r3_rn = Default::default(); },
         _ => panic!("verif harness: unknown relation {}", rel),
      }
   }
   fn run(&mut self) { self.0.run(); }
   fn dump(&self) -> Value {
      let mut m: Vec<(String, Value)> = vec![];
      m.push(("t_rn".to_string(), rows_json(self.0.t_rn.iter())));
      m.push(("u_rn".to_string(), rows_json(self.0.u_rn.iter())));
      m.push(("r1_rn".to_string(), rows_json(self.0.r1_rn.iter())));
      m.push(("r2_rn".to_string(), rows_json(self.0.r2_rn.iter())));
      m.push(("r3_rn".to_string(), rows_json(self.0.r3_rn.iter())));
      Value::Obj(m)
   }
   fn summary(&self) -> String { Prog::summary().to_string() }
}
pub fn make() -> Box<dyn Driven> { Box::new(D(Prog::default())) }
