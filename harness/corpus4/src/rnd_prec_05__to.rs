#![allow(unused_imports, unused_variables, unused_mut, dead_code, non_snake_case, unused_parens, clippy::all)]
use ascent::lattice::bounded_set::BoundedSet;
use ascent::lattice::constant_propagation::ConstPropagation;
use ascent::lattice::set::Set;
use ascent::lattice::Product;
use ascent::{Dual, Lattice};
use vh_lite::{rows_json, Driven, Value};
ascent::ascent! {
   #![generate_run_timeout]
   pub struct Prog;
   relation e(i32, i32);
   relation f(i32, i32);
   relation u(i32);
   relation r0(i32);
   relation r1(i32, i32, i32);
   relation r2(i32, i32);
   r0(w) <-- e(1, w), u(w);
   r0(0) <-- for v in (0)..(3), r0(w) if ((*w) < v), r0(v);
   r1(0, z, v) <-- e(z, z) if ((*z) > 0), if ((*z) > 2), e(v, v), let y = std::cmp::min(((*z) * 2), 4);
   r1(y, x, y) <-- for x in (0)..(3), r1(z, _, z), r1(y, x, _);
   r2(v, v) <-- r1(v, _, _) if ((*v) < 1), f(v, v), if ((*v) > 2);
   r2(x, v) <-- let w = 1, r1(x, _, _), u(v) if ((*v) > 2);
}

pub struct D(Prog);
impl Driven for D {
   fn push(&mut self, rel: &str, row: &Value) {
      match rel {
         "e" => { self.0.e.push((row[0].as_i64().unwrap() as i32, row[1].as_i64().unwrap() as i32,)); },
         "f" => { self.0.f.push((row[0].as_i64().unwrap() as i32, row[1].as_i64().unwrap() as i32,)); },
         "u" => { self.0.u.push((row[0].as_i64().unwrap() as i32,)); },
         "r0" => { self.0.r0.push((row[0].as_i64().unwrap() as i32,)); },
         "r1" => { self.0.r1.push((row[0].as_i64().unwrap() as i32, row[1].as_i64().unwrap() as i32, row[2].as_i64().unwrap() as i32,)); },
         "r2" => { self.0.r2.push((row[0].as_i64().unwrap() as i32, row[1].as_i64().unwrap() as i32,)); },
         _ => panic!("verif harness: unknown relation {}", rel),
      }
   }
   fn clear(&mut self, rel: &str) {
      match rel {
         "e" => { self.0.e = Default::default(); },
         "f" => { self.0.f = Default::default(); },
         "u" => { self.0.u = Default::default(); },
         "r0" => { self.0.r0 = Default::default(); },
         "r1" => { self.0.r1 = Default::default(); },
         "r2" => { self.0.r2 = Default::default(); },
         _ => panic!("verif harness: unknown relation {}", rel),
      }
   }
   fn run(&mut self) { self.0.run(); }
   fn run_timeout(&mut self, nanos: u64) -> Option<bool> { Some(self.0.run_timeout(std::time::Duration::from_nanos(nanos))) }
   fn dump(&self) -> Value {
      let mut m: Vec<(String, Value)> = vec![];
      m.push(("e".to_string(), rows_json(self.0.e.iter())));
      m.push(("f".to_string(), rows_json(self.0.f.iter())));
      m.push(("u".to_string(), rows_json(self.0.u.iter())));
      m.push(("r0".to_string(), rows_json(self.0.r0.iter())));
      m.push(("r1".to_string(), rows_json(self.0.r1.iter())));
      m.push(("r2".to_string(), rows_json(self.0.r2.iter())));
      Value::Obj(m)
   }
   fn summary(&self) -> String { Prog::summary().to_string() }
}
pub fn make() -> Box<dyn Driven> { Box::new(D(Prog::default())) }
