#![allow(unused_imports, unused_variables, unused_mut, dead_code, non_snake_case, unused_parens, clippy::all)]
use ascent::lattice::bounded_set::BoundedSet;
use ascent::lattice::constant_propagation::ConstPropagation;
use ascent::lattice::set::Set;
use ascent::lattice::Product;
use ascent::{Dual, Lattice};
use vh_lite::{rows_json, Driven, Value};
const PASS: i32 = 1;
const HI: i32 = 2;
ascent::ascent_par! {
   pub struct Prog;
   relation grade(i32, i32);
   relation st(i32);
   relation failed(i32);
   relation npass(i32, i32);
   relation top(i32, i32);
   relation hi(i32);
   failed(s) <-- st(s), agg () = ascent::aggregators::not() in grade(s, PASS);
   npass(s, (n as i32)) <-- st(s), agg n = ascent::aggregators::count() in grade(s, PASS);
   top(s, m) <-- st(s), agg m = ascent::aggregators::max(g) in grade(s, g), if (m >= HI);
   hi(s) <-- grade(s, g), if ((*g) == HI), agg () = ascent::aggregators::not() in grade(s, PASS);
}

pub struct D(Prog);
impl Driven for D {
   fn push(&mut self, rel: &str, row: &Value) {
      match rel {
         "grade" => { self.0.grade.push((row[0].as_i64().unwrap() as i32, row[1].as_i64().unwrap() as i32,)); },
         "st" => { self.0.st.push((row[0].as_i64().unwrap() as i32,)); },
         "failed" => { self.0.failed.push((row[0].as_i64().unwrap() as i32,)); },
         "npass" => { self.0.npass.push((row[0].as_i64().unwrap() as i32, row[1].as_i64().unwrap() as i32,)); },
         "top" => { self.0.top.push((row[0].as_i64().unwrap() as i32, row[1].as_i64().unwrap() as i32,)); },
         "hi" => { self.0.hi.push((row[0].as_i64().unwrap() as i32,)); },
         _ => panic!("verif harness: unknown relation {}", rel),
      }
   }
   fn clear(&mut self, rel: &str) {
      match rel {
         "grade" => { self.0.grade = Default::default(); },
         "st" => { self.0.st = Default::default(); },
         "failed" => { self.0.failed = Default::default(); },
         "npass" => { self.0.npass = Default::default(); },
         "top" => { self.0.top = Default::default(); },
         "hi" => { self.0.hi = Default::default(); },
         _ => panic!("verif harness: unknown relation {}", rel),
      }
   }
   fn run(&mut self) { self.0.run(); }
   fn dump(&self) -> Value {
      let mut m: Vec<(String, Value)> = vec![];
      m.push(("grade".to_string(), rows_json(self.0.grade.iter())));
      m.push(("st".to_string(), rows_json(self.0.st.iter())));
      m.push(("failed".to_string(), rows_json(self.0.failed.iter())));
      m.push(("npass".to_string(), rows_json(self.0.npass.iter())));
      m.push(("top".to_string(), rows_json(self.0.top.iter())));
      m.push(("hi".to_string(), rows_json(self.0.hi.iter())));
      Value::Obj(m)
   }
   fn summary(&self) -> String { Prog::summary().to_string() }
}
pub fn make() -> Box<dyn Driven> { Box::new(D(Prog::default())) }
