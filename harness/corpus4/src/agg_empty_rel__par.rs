#![allow(unused_imports, unused_variables, unused_mut, dead_code, non_snake_case, unused_parens, clippy::all)]
use ascent::lattice::bounded_set::BoundedSet;
use ascent::lattice::constant_propagation::ConstPropagation;
use ascent::lattice::set::Set;
use ascent::lattice::Product;
use ascent::{Dual, Lattice};
use vh_lite::{rows_json, Driven, Value};
ascent::ascent_par! {
   pub struct Prog;
   relation e(i32, i32);
   relation node(i32);
   relation blocked(i32);
   relation two(i32, i32);
   relation c3(i32, i32);
   relation s3(i32, i32);
   two(x, z) <-- e(x, y), e(y, z), node(z), !blocked(y);
   c3(x, (n as i32)) <-- e(x, y), e(y, _), node(x), agg n = ascent::aggregators::count() in blocked(y);
   s3(x, t) <-- node(x), e(x, y), node(y), agg t = ascent::aggregators::sum(b) in blocked(b);
}

pub struct D(Prog);
impl Driven for D {
   fn push(&mut self, rel: &str, row: &Value) {
      match rel {
         "e" => { self.0.e.push((row[0].as_i64().unwrap() as i32, row[1].as_i64().unwrap() as i32,)); },
         "node" => { self.0.node.push((row[0].as_i64().unwrap() as i32,)); },
         "blocked" => { self.0.blocked.push((row[0].as_i64().unwrap() as i32,)); },
         "two" => { self.0.two.push((row[0].as_i64().unwrap() as i32, row[1].as_i64().unwrap() as i32,)); },
         "c3" => { self.0.c3.push((row[0].as_i64().unwrap() as i32, row[1].as_i64().unwrap() as i32,)); },
         "s3" => { self.0.s3.push((row[0].as_i64().unwrap() as i32, row[1].as_i64().unwrap() as i32,)); },
         _ => panic!("verif harness: unknown relation {}", rel),
      }
   }
   fn clear(&mut self, rel: &str) {
      match rel {
         "e" => { self.0.e = Default::default(); },
         "node" => { self.0.node = Default::default(); },
         "blocked" => { self.0.blocked = Default::default(); },
         "two" => { self.0.two = Default::default(); },
         "c3" => { self.0.c3 = Default::default(); },
         "s3" => { self.0.s3 = Default::default(); },
         _ => panic!("verif harness: unknown relation {}", rel),
      }
   }
   fn run(&mut self) { self.0.run(); }
   fn dump(&self) -> Value {
      let mut m: Vec<(String, Value)> = vec![];
      m.push(("e".to_string(), rows_json(self.0.e.iter())));
      m.push(("node".to_string(), rows_json(self.0.node.iter())));
      m.push(("blocked".to_string(), rows_json(self.0.blocked.iter())));
      m.push(("two".to_string(), rows_json(self.0.two.iter())));
      m.push(("c3".to_string(), rows_json(self.0.c3.iter())));
      m.push(("s3".to_string(), rows_json(self.0.s3.iter())));
      Value::Obj(m)
   }
   fn summary(&self) -> String { Prog::summary().to_string() }
}
pub fn make() -> Box<dyn Driven> { Box::new(D(Prog::default())) }
