#![allow(unused_imports, unused_variables, unused_mut, dead_code, non_snake_case, unused_parens, clippy::all)]
use ascent::lattice::bounded_set::BoundedSet;
use ascent::lattice::constant_propagation::ConstPropagation;
use ascent::lattice::set::Set;
use ascent::lattice::Product;
use ascent::{Dual, Lattice};
use vh_lite::{rows_json, Driven, Value};
#[derive(Default)]
pub struct D {
   f: Vec<(i32, i32,)>,
   e: Vec<(i32, i32,)>,
   g: Vec<(i32, i32,)>,
   h: Vec<(i32,)>,
   out: Option<Value>,
}
impl Driven for D {
   fn push(&mut self, rel: &str, row: &Value) {
      match rel {
         "f" => { self.f.push((row[0].as_i64().unwrap() as i32, row[1].as_i64().unwrap() as i32,)); },
         "e" => { self.e.push((row[0].as_i64().unwrap() as i32, row[1].as_i64().unwrap() as i32,)); },
         "g" => { self.g.push((row[0].as_i64().unwrap() as i32, row[1].as_i64().unwrap() as i32,)); },
         "h" => { self.h.push((row[0].as_i64().unwrap() as i32,)); },
         _ => panic!("verif harness: unknown relation {}", rel),
      }
   }
   fn run(&mut self) {
      let e_init = self.e.clone();
      let h_init = self.h.clone();
      let res = ascent::ascent_run! {
         relation f(i32, i32);
         relation e(i32, i32);
         relation g(i32, i32);
         relation h(i32) = h_init;
         e(a0.clone(), a1.clone()) <-- for (a0, a1, ) in e_init.iter();
         f(1, 2);
         f(2, 0);
         g(x, z) <-- f(x, y), e(y, z);
         g(x, z) <-- e(x, y), f(y, z);
         h(7);
         h(x) <-- g(x, _);
      };
      let mut m: Vec<(String, Value)> = vec![];
      m.push(("f".to_string(), rows_json(res.f.iter())));
      m.push(("e".to_string(), rows_json(res.e.iter())));
      m.push(("g".to_string(), rows_json(res.g.iter())));
      m.push(("h".to_string(), rows_json(res.h.iter())));
      self.out = Some(Value::Obj(m));
   }
   fn dump(&self) -> Value { self.out.clone().unwrap_or(Value::Null) }
}
pub fn make() -> Box<dyn Driven> { Box::new(D::default()) }
