#![allow(unused_imports, unused_variables, unused_mut, dead_code, non_snake_case, unused_parens, clippy::all)]
use ascent::lattice::bounded_set::BoundedSet;
use ascent::lattice::constant_propagation::ConstPropagation;
use ascent::lattice::set::Set;
use ascent::lattice::Product;
use ascent::{Dual, Lattice};
use vh_lite::{rows_json, Driven, Value};
ascent::ascent! {
   pub struct Prog;
   relation e(i32, i32);
   relation f(i32, i32);
   relation k(i32);
   relation j(i32, i32);
   j(x, z) <-- f(y, z), e(x, y);
   j(x, z) <-- f(y, z), j(x, y);
   k(x) <-- j(x, x);
}

pub struct D(Prog);
impl Driven for D {
   fn push(&mut self, rel: &str, row: &Value) {
      match rel {
         "e" => { self.0.e.push((row[0].as_i64().unwrap() as i32, row[1].as_i64().unwrap() as i32,)); },
         "f" => { self.0.f.push((row[0].as_i64().unwrap() as i32, row[1].as_i64().unwrap() as i32,)); },
         "k" => { self.0.k.push((row[0].as_i64().unwrap() as i32,)); },
         "j" => { self.0.j.push((row[0].as_i64().unwrap() as i32, row[1].as_i64().unwrap() as i32,)); },
         _ => panic!("verif harness: unknown relation {}", rel),
      }
   }
   fn clear(&mut self, rel: &str) {
      match rel {
         "e" => { self.0.e = Default::default(); },
         "f" => { self.0.f = Default::default(); },
         "k" => { self.0.k = Default::default(); },
         "j" => { self.0.j = Default::default(); },
         _ => panic!("verif harness: unknown relation {}", rel),
      }
   }
   fn run(&mut self) { self.0.run(); }
   fn dump(&self) -> Value {
      let mut m: Vec<(String, Value)> = vec![];
      m.push(("e".to_string(), rows_json(self.0.e.iter())));
      m.push(("f".to_string(), rows_json(self.0.f.iter())));
      m.push(("k".to_string(), rows_json(self.0.k.iter())));
      m.push(("j".to_string(), rows_json(self.0.j.iter())));
      Value::Obj(m)
   }
   fn summary(&self) -> String { Prog::summary().to_string() }
}
pub fn make() -> Box<dyn Driven> { Box::new(D(Prog::default())) }
