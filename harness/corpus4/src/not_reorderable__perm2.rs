#![allow(unused_imports, unused_variables, unused_mut, dead_code, non_snake_case, unused_parens, clippy::all)]
use ascent::lattice::bounded_set::BoundedSet;
use ascent::lattice::constant_propagation::ConstPropagation;
use ascent::lattice::set::Set;
use ascent::lattice::Product;
use ascent::{Dual, Lattice};
use vh_lite::{rows_json, Driven, Value};
ascent::ascent! {
   pub struct Prog;
   relation r(i32, i32);
   relation e(i32, i32);
   relation r2(i32, i32);
   relation f(i32, i32);
   r(x, y) <-- let z = 1, e(x, y), f(y, z);
   r2(x, z) <-- f(y, z), e(x, y);
}

pub struct D(Prog);
impl Driven for D {
   fn push(&mut self, rel: &str, row: &Value) {
      match rel {
         "r" => { self.0.r.push((row[0].as_i64().unwrap() as i32, row[1].as_i64().unwrap() as i32,)); },
         "e" => { self.0.e.push((row[0].as_i64().unwrap() as i32, row[1].as_i64().unwrap() as i32,)); },
         "r2" => { self.0.r2.push((row[0].as_i64().unwrap() as i32, row[1].as_i64().unwrap() as i32,)); },
         "f" => { self.0.f.push((row[0].as_i64().unwrap() as i32, row[1].as_i64().unwrap() as i32,)); },
         _ => panic!("verif harness: unknown relation {}", rel),
      }
   }
   fn clear(&mut self, rel: &str) {
      match rel {
         "r" => { self.0.r = Default::default(); },
         "e" => { self.0.e = Default::default(); },
         "r2" => { self.0.r2 = Default::default(); },
         "f" => { self.0.f = Default::default(); },
         _ => panic!("verif harness: unknown relation {}", rel),
      }
   }
   fn run(&mut self) { self.0.run(); }
   fn dump(&self) -> Value {
      let mut m: Vec<(String, Value)> = vec![];
      m.push(("r".to_string(), rows_json(self.0.r.iter())));
      m.push(("e".to_string(), rows_json(self.0.e.iter())));
      m.push(("r2".to_string(), rows_json(self.0.r2.iter())));
      m.push(("f".to_string(), rows_json(self.0.f.iter())));
      Value::Obj(m)
   }
   fn summary(&self) -> String { Prog::summary().to_string() }
}
pub fn make() -> Box<dyn Driven> { Box::new(D(Prog::default())) }
