#![allow(unused_imports, unused_variables, unused_mut, dead_code, non_snake_case, unused_parens, clippy::all)]
use ascent::lattice::bounded_set::BoundedSet;
use ascent::lattice::constant_propagation::ConstPropagation;
use ascent::lattice::set::Set;
use ascent::lattice::Product;
use ascent::{Dual, Lattice};
use vh_lite::{rows_json, Driven, Value};
ascent::ascent! {
   pub struct Prog;
   relation o(i32, Option<i32>);
   relation r(i32, i32);
   relation nn(i32);
   relation eqv(i32);
   r(k, v) <-- o(k, p__x1) if let Some(v) = (*p__x1);
   nn(k) <-- o(k, p__x2) if let None = (*p__x2);
   eqv(k) <-- o(k, p__x3) if let Some(v) = (*p__x3), o(v__x4, p__x5) if ((*v__x4) == v) if let Some(k2) = (*p__x5), if (k2 == (*k));
}

pub struct D(Prog);
impl Driven for D {
   fn push(&mut self, rel: &str, row: &Value) {
      match rel {
         "o" => { self.0.o.push((row[0].as_i64().unwrap() as i32, (if row[1]["tag"].is_str("some") { Some(row[1]["v"].as_i64().unwrap() as i32) } else { None }),)); },
         "r" => { self.0.r.push((row[0].as_i64().unwrap() as i32, row[1].as_i64().unwrap() as i32,)); },
         "nn" => { self.0.nn.push((row[0].as_i64().unwrap() as i32,)); },
         "eqv" => { self.0.eqv.push((row[0].as_i64().unwrap() as i32,)); },
         _ => panic!("verif harness: unknown relation {}", rel),
      }
   }
   fn clear(&mut self, rel: &str) {
      match rel {
         "o" => { self.0.o = Default::default(); },
         "r" => { self.0.r = Default::default(); },
         "nn" => { self.0.nn = Default::default(); },
         "eqv" => { self.0.eqv = Default::default(); },
         _ => panic!("verif harness: unknown relation {}", rel),
      }
   }
   fn run(&mut self) { self.0.run(); }
   fn dump(&self) -> Value {
      let mut m: Vec<(String, Value)> = vec![];
      m.push(("o".to_string(), rows_json(self.0.o.iter())));
      m.push(("r".to_string(), rows_json(self.0.r.iter())));
      m.push(("nn".to_string(), rows_json(self.0.nn.iter())));
      m.push(("eqv".to_string(), rows_json(self.0.eqv.iter())));
      Value::Obj(m)
   }
   fn summary(&self) -> String { Prog::summary().to_string() }
}
pub fn make() -> Box<dyn Driven> { Box::new(D(Prog::default())) }
