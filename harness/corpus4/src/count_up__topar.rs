#![allow(unused_imports, unused_variables, unused_mut, dead_code, non_snake_case, unused_parens, clippy::all)]
use ascent::lattice::bounded_set::BoundedSet;
use ascent::lattice::constant_propagation::ConstPropagation;
use ascent::lattice::set::Set;
use ascent::lattice::Product;
use ascent::{Dual, Lattice};
use vh_lite::{rows_json, Driven, Value};
ascent::ascent_par! {
   #![generate_run_timeout]
   pub struct Prog;
   relation u(i32);
   relation n(i32);
   relation big(i32);
   n(x) <-- u(x);
   n(((*x) + 1)) <-- n(x), if ((*x) < 6);
   big(x) <-- n(x), n(((*x) - 3));
}

pub struct D(Prog);
impl Driven for D {
   fn push(&mut self, rel: &str, row: &Value) {
      match rel {
         "u" => { self.0.u.push((row[0].as_i64().unwrap() as i32,)); },
         "n" => { self.0.n.push((row[0].as_i64().unwrap() as i32,)); },
         "big" => { self.0.big.push((row[0].as_i64().unwrap() as i32,)); },
         _ => panic!("verif harness: unknown relation {}", rel),
      }
   }
   fn clear(&mut self, rel: &str) {
      match rel {
         "u" => { self.0.u = Default::default(); },
         "n" => { self.0.n = Default::default(); },
         "big" => { self.0.big = Default::default(); },
         _ => panic!("verif harness: unknown relation {}", rel),
      }
   }
   fn run(&mut self) { self.0.run(); }
   fn run_timeout(&mut self, nanos: u64) -> Option<bool> { Some(self.0.run_timeout(std::time::Duration::from_nanos(nanos))) }
   fn dump(&self) -> Value {
      let mut m: Vec<(String, Value)> = vec![];
      m.push(("u".to_string(), rows_json(self.0.u.iter())));
      m.push(("n".to_string(), rows_json(self.0.n.iter())));
      m.push(("big".to_string(), rows_json(self.0.big.iter())));
      Value::Obj(m)
   }
   fn summary(&self) -> String { Prog::summary().to_string() }
}
pub fn make() -> Box<dyn Driven> { Box::new(D(Prog::default())) }
