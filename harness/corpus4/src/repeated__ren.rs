#![allow(unused_imports, unused_variables, unused_mut, dead_code, non_snake_case, unused_parens, clippy::all)]
use ascent::lattice::bounded_set::BoundedSet;
use ascent::lattice::constant_propagation::ConstPropagation;
use ascent::lattice::set::Set;
use ascent::lattice::Product;
use ascent::{Dual, Lattice};
use vh_lite::{rows_json, Driven, Value};
ascent::ascent! {
   pub struct Prog;
   relation e_rn(i32, i32);
   relation lp_rn(i32);
   relation sym_rn(i32, i32);
   relation tri_rn(i32, i32, i32);
   lp_rn(v_x_q) <-- e_rn(v_x_q, v_x_q);
   sym_rn(v_x_q, v_y_q) <-- e_rn(v_x_q, v_y_q), e_rn(v_y_q, v_x_q);
   tri_rn(v_x_q, v_y_q, v_z_q) <-- e_rn(v_x_q, v_y_q), e_rn(v_y_q, v_z_q), e_rn(v_z_q, v_x_q);
}

pub struct D(Prog);
impl Driven for D {
   fn push(&mut self, rel: &str, row: &Value) {
      match rel {
         "e_rn" => { self.0.e_rn.push((row[0].as_i64().unwrap() as i32, row[1].as_i64().unwrap() as i32,)); },
         "lp_rn" => { self.0.lp_rn.push((row[0].as_i64().unwrap() as i32,)); },
         "sym_rn" => { self.0.sym_rn.push((row[0].as_i64().unwrap() as i32, row[1].as_i64().unwrap() as i32,)); },
         "tri_rn" => { self.0.tri_rn.push((row[0].as_i64().unwrap() as i32, row[1].as_i64().unwrap() as i32, row[2].as_i64().unwrap() as i32,)); },
         _ => panic!("verif harness: unknown relation {}", rel),
      }
   }
   fn clear(&mut self, rel: &str) {
      match rel {
         "e_rn" => { self.0.e_rn = Default::default(); },
         "lp_rn" => { self.0.lp_rn = Default::default(); },
         "sym_rn" => { self.0.sym_rn = Default::default(); },
         "tri_rn" => { self.0.tri_rn = Default::default(); },
         _ => panic!("verif harness: unknown relation {}", rel),
      }
   }
   fn run(&mut self) { self.0.run(); }
   fn dump(&self) -> Value {
      let mut m: Vec<(String, Value)> = vec![];
      m.push(("e_rn".to_string(), rows_json(self.0.e_rn.iter())));
      m.push(("lp_rn".to_string(), rows_json(self.0.lp_rn.iter())));
      m.push(("sym_rn".to_string(), rows_json(self.0.sym_rn.iter())));
      m.push(("tri_rn".to_string(), rows_json(self.0.tri_rn.iter())));
      Value::Obj(m)
   }
   fn summary(&self) -> String { Prog::summary().to_string() }
}
pub fn make() -> Box<dyn Driven> { Box::new(D(Prog::default())) }
