#![allow(unused_imports, unused_variables, unused_mut, dead_code, non_snake_case, unused_parens, clippy::all)]
use ascent::lattice::bounded_set::BoundedSet;
use ascent::lattice::constant_propagation::ConstPropagation;
use ascent::lattice::set::Set;
use ascent::lattice::Product;
use ascent::{Dual, Lattice};
use vh_lite::{rows_json, Driven, Value};
ascent::ascent_par! {
   pub struct Prog;
   relation e(i32, i32);
   relation f(i32, i32);
   relation r(i32, i32);
   r(x, z) <-- e(x, y), e(y__x3, z) if ((*y__x3) == (*y));
   r(x, z) <-- e(x, y), f(y__x4, z) if ((*y__x4) == (*y));
   r(x, z) <-- e(x, y), e(y__x5, t__x2) if ((*y__x5) == (*y)), f(t__x2__x6, z) if ((*t__x2__x6) == (*t__x2));
   r(x, z) <-- f(x, y), e(y__x7, z) if ((*y__x7) == (*y));
   r(x, z) <-- f(x, y), f(y__x8, z) if ((*y__x8) == (*y));
   r(x, z) <-- f(x, y), e(y__x9, t__x2) if ((*y__x9) == (*y)), f(t__x2__x10, z) if ((*t__x2__x10) == (*t__x2));
   r(x, z) <-- e(x, t__x1), f(t__x1__x11, y) if ((*t__x1__x11) == (*t__x1)), e(y__x12, z) if ((*y__x12) == (*y));
   r(x, z) <-- e(x, t__x1), f(t__x1__x13, y) if ((*t__x1__x13) == (*t__x1)), f(y__x14, z) if ((*y__x14) == (*y));
   r(x, z) <-- e(x, t__x1), f(t__x1__x15, y) if ((*t__x1__x15) == (*t__x1)), e(y__x16, t__x2) if ((*y__x16) == (*y)), f(t__x2__x17, z) if ((*t__x2__x17) == (*t__x2));
}

pub struct D(Prog);
impl Driven for D {
   fn push(&mut self, rel: &str, row: &Value) {
      match rel {
         "e" => { self.0.e.push((row[0].as_i64().unwrap() as i32, row[1].as_i64().unwrap() as i32,)); },
         "f" => { self.0.f.push((row[0].as_i64().unwrap() as i32, row[1].as_i64().unwrap() as i32,)); },
         "r" => { self.0.r.push((row[0].as_i64().unwrap() as i32, row[1].as_i64().unwrap() as i32,)); },
         _ => panic!("verif harness: unknown relation {}", rel),
      }
   }
   fn clear(&mut self, rel: &str) {
      match rel {
         "e" => { self.0.e = Default::default(); },
         "f" => { self.0.f = Default::default(); },
         "r" => { self.0.r = Default::default(); },
         _ => panic!("verif harness: unknown relation {}", rel),
      }
   }
   fn run(&mut self) { self.0.run(); }
   fn dump(&self) -> Value {
      let mut m: Vec<(String, Value)> = vec![];
      m.push(("e".to_string(), rows_json(self.0.e.iter())));
      m.push(("f".to_string(), rows_json(self.0.f.iter())));
      m.push(("r".to_string(), rows_json(self.0.r.iter())));
      Value::Obj(m)
   }
   fn summary(&self) -> String { Prog::summary().to_string() }
}
pub fn make() -> Box<dyn Driven> { Box::new(D(Prog::default())) }
