#![allow(unused_imports, unused_variables, unused_mut, dead_code, non_snake_case, unused_parens, clippy::all)]
use ascent::lattice::bounded_set::BoundedSet;
use ascent::lattice::constant_propagation::ConstPropagation;
use ascent::lattice::set::Set;
use ascent::lattice::Product;
use ascent::{Dual, Lattice};
use vh_lite::{rows_json, Driven, Value};
ascent::ascent! {
   #![generate_run_timeout]
   pub struct Prog;
   relation e(i32, i32);
   lattice bs(i32, BoundedSet<2, i32>);
   relation top(i32);
   relation has1(i32);
   bs(x, BoundedSet::<2, i32>::singleton((*y))) <-- e(x, y);
   bs(x, s) <-- e(x, y), bs(y, s);
   top(x) <-- bs(x, s), if ((*s).clone()).is_top();
   has1(x) <-- bs(x, s), if ((*s).clone()).contains(&(1));
}

pub struct D(Prog);
impl Driven for D {
   fn push(&mut self, rel: &str, row: &Value) {
      match rel {
         "e" => { self.0.e.push((row[0].as_i64().unwrap() as i32, row[1].as_i64().unwrap() as i32,)); },
         "bs" => { self.0.bs.push((row[0].as_i64().unwrap() as i32, panic!("verif harness: cannot push a value of lattice type bset2_i32"),)); },
         "top" => { self.0.top.push((row[0].as_i64().unwrap() as i32,)); },
         "has1" => { self.0.has1.push((row[0].as_i64().unwrap() as i32,)); },
         _ => panic!("verif harness: unknown relation {}", rel),
      }
   }
   fn clear(&mut self, rel: &str) {
      match rel {
         "e" => { self.0.e = Default::default(); },
         "bs" => { self.0.bs = Default::default(); },
         "top" => { self.0.top = Default::default(); },
         "has1" => { self.0.has1 = Default::default(); },
         _ => panic!("verif harness: unknown relation {}", rel),
      }
   }
   fn run(&mut self) { self.0.run(); }
   fn run_timeout(&mut self, nanos: u64) -> Option<bool> { Some(self.0.run_timeout(std::time::Duration::from_nanos(nanos))) }
   fn dump(&self) -> Value {
      let mut m: Vec<(String, Value)> = vec![];
      m.push(("e".to_string(), rows_json(self.0.e.iter())));
      m.push(("bs".to_string(), rows_json(self.0.bs.iter())));
      m.push(("top".to_string(), rows_json(self.0.top.iter())));
      m.push(("has1".to_string(), rows_json(self.0.has1.iter())));
      Value::Obj(m)
   }
   fn summary(&self) -> String { Prog::summary().to_string() }
}
pub fn make() -> Box<dyn Driven> { Box::new(D(Prog::default())) }
